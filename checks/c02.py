"""C02 - scores depend on the co-occurrence structure, not on numeric codes; self-pair rule is exact identity."""
from __future__ import annotations

import math

import numpy as np
import pandas as pd
from hypothesis import strategies as st

from vlib import gens, refmodels as rm, stubs
from vlib.harness import Clause, Inconclusive, Violation, drive

from outrank.algorithms.feature_ranking import ranking_mi_numba as cut
from outrank.core_ranking import mixed_rank_graph

ID = 'C02'
RULE = ('Base pairs: element-wise pairs (n<=64), PRNG structured families (n<=2000) and a directed equal-sum class '
        '(Y = X o row-permutation, Y = X with +d/-d on two rows, Y = relabeling of X preserving the code sum). Relabelings '
        'f,g in {identity, permutation of used codes, offset, order reversal, sparse injection into [0,2^20)} x correction flag. '
        'Non-trivial: invariance - at least one relabeling is not the identity on the used codes and both sides non-constant; '
        'self-rule - sum(X-Y)=0, X!=Y and |corrected_ref - plain_ref| > 10*tol; pipeline - frame with >=2 non-constant columns '
        'and a renaming that changes the sort order of values. Pairs for which the self rule applies on one side of the '
        'metamorphic relation only (Y==X but f!=g) are excluded from the invariance clause and counted.')
ASSUMPTIONS = ['corrected_ref is the displaced-copy model of C03 (vlib/refmodels.py)',
               'tolerance as in C01 (x2 for metamorphic comparisons of two float32 results)']


def own(v):
    return np.ascontiguousarray(v, dtype=np.int32).copy()


def mi(Y, X, c):
    """Y, X: int32 arrays owned by the oracle (passed again on later calls) or anything convertible (fresh copy)."""
    Ya = Y if isinstance(Y, np.ndarray) and Y.dtype == np.int32 else own(Y)
    Xa = X if isinstance(X, np.ndarray) and X.dtype == np.int32 else own(X)
    try:
        return float(cut.mutual_info_estimator_numba(Ya, Xa, np.float32(1.0), bool(c)))
    except Exception as e:  # noqa: BLE001
        raise Violation(f'estimator raised {type(e).__name__}: {str(e)[:300]} for int32 vectors of length {len(Xa)}',
                        kind='C02/exception')


# ---- strategies ----------------------------------------------------------------------------------

@st.composite
def equal_sum_pair(draw):
    """Non-identical pairs with equal code sums (often equal histograms)."""
    n = draw(st.integers(2, 40))
    k = draw(st.sampled_from([2, 3, 4, 6, n]))
    X = draw(st.lists(st.integers(0, k - 1), min_size=n, max_size=n))
    mode = draw(st.sampled_from(['rowperm', 'plusminus', 'swap2', 'offsetcopy']))
    Y = list(X)
    if mode == 'offsetcopy':
        # the same partition under shifted codes: different vectors, identical after subtracting the minimum
        d = draw(st.sampled_from([1, 5, 400000]))
        Y = [x + d for x in X]
    elif mode == 'rowperm':
        perm = draw(st.permutations(list(range(n))))
        Y = [X[i] for i in perm]
    elif mode == 'plusminus':
        i = draw(st.integers(0, n - 1))
        j = draw(st.integers(0, n - 1).filter(lambda v: v != i)) if n > 1 else i
        d = draw(st.integers(1, 5))
        Y[i] = X[i] + d
        Y[j] = X[j] - d
        if Y[j] < 0:
            shift = -Y[j]
            Y = [y + shift for y in Y]
            X = [x + shift for x in X]
    else:
        # relabel two codes a<->b on Y with equal multiplicity -> same sum, same histogram
        i = draw(st.integers(0, n - 1))
        j = draw(st.integers(0, n - 1))
        Y[i], Y[j] = Y[j], Y[i]
    return {'Y': Y, 'X': X}


def base_pair():
    return st.one_of(gens.small_pair(), gens.family_pair(sizes=((2, 8), (9, 64), (65, 2000))), equal_sum_pair())


@st.composite
def relabel_case(draw):
    case = dict(draw(base_pair()))
    case['fy'] = draw(gens.relabel_spec())
    case['gx'] = draw(gens.relabel_spec())
    case['c'] = draw(st.booleans())
    return case


@st.composite
def manystrata_relabel_case(draw):
    """More than 2^14 distinct values that all occur equally often (ids seen 2-4 times, n 40 000 - 90 000) on either side, recoded
    by order-changing maps: any selection among equally frequent values by code order shows as a changed score."""
    case = dict(draw(gens.manystrata_pair()))
    case['gen'] = dict(case['gen'], p=0.5)          # the other vector is random: strata differ in their distributions
    case['swap'] = draw(st.sampled_from([True, True, False]))    # the kernel's strata loop runs over the second argument
    order_changing = st.one_of(st.builds(lambda s: {'t': 'perm', 'k': s}, st.integers(0, 2**32 - 1)), st.just({'t': 'reverse'}),
                               st.builds(lambda s: {'t': 'sparse', 'k': s}, st.integers(0, 2**32 - 1)))
    case['fy'] = draw(order_changing)
    case['gx'] = draw(order_changing)
    case['c'] = draw(st.booleans())
    return case


@st.composite
def selfrule_case(draw):
    return dict(draw(st.one_of(equal_sum_pair(), equal_sum_pair(), gens.small_pair(max_n=24), gens.lagged_pair())))


VALUE_POOL = ['', 'a', 'b', 'ab', 'ba', '1', '11', '2', '10', 'é', 'é', ' ', 'Z', 'z', '0', '-1', 'NaN', 'x,y']


NUMERAL_POOL = ['1', '01', '1.0', '1.10', '1.1', '2', '2.0', '10', '1e1', '0', '0.0', '-1', '-1.0', '007', '7']


@st.composite
def long_relabel_case(draw):
    """n 66 000 - 90 000 with few values on both sides (a label against a low-cardinality feature in a long batch), recoded with
    gapped codes: small strides (c -> 2c, 3c, 1000c), offsets, reversal."""
    case = {'gen': {'fam': draw(st.sampled_from(['independent', 'noisy_copy', 'function'])), 'n': draw(st.integers(66_000, 90_000)),
                    'kx': draw(st.integers(2, 40)), 'ky': draw(st.integers(2, 12)), 'k': draw(st.integers(0, 2**32 - 1)), 'p': 0.15},
            'swap': draw(st.booleans())}
    spec = st.one_of(st.builds(lambda m: {'t': 'stride', 'm': m}, st.sampled_from([2, 3, 3, 7, 1000])), st.just({'t': 'reverse'}),
                     st.builds(lambda d: {'t': 'offset', 'd': d}, st.sampled_from([1, 5, 1000])), st.just({'t': 'id'}))
    case['fy'] = draw(spec)
    case['gx'] = draw(spec)
    case['c'] = draw(st.booleans())
    return case


@st.composite
def frame_case(draw):
    ncols = draw(st.integers(2, 4))
    nrows = draw(st.integers(2, 60))
    cols = []
    for c in range(ncols):
        k = draw(st.integers(1, 6))
        # now and then a column whose values all read as numbers, several of them spelling the SAME number (version strings, zero-padded ids)
        pool = NUMERAL_POOL if draw(st.integers(0, 3)) == 0 else VALUE_POOL
        vals = draw(st.lists(st.sampled_from(pool), min_size=k, max_size=k, unique=True))
        cols.append(draw(st.lists(st.sampled_from(vals), min_size=nrows, max_size=nrows)))
    label_pos = draw(st.integers(0, ncols - 1))
    rename_seed = draw(st.integers(0, 2**32 - 1))
    pairwise = draw(st.booleans())
    # the frame's text columns are stored either with pandas' string dtype or as plain Python objects (dtype=object)
    return {'cols': cols, 'label_pos': label_pos, 'rename_seed': rename_seed, 'pairwise': pairwise, 'object_dtype': draw(st.booleans())}


# ---- oracles -------------------------------------------------------------------------------------

def oracle_relabel(case, rec):
    Y, X = gens.materialize_pair(case)
    fy, gx, c = case['fy'], case['gx'], case['c']
    Y2, X2 = gens.apply_relabel(Y, fy), gens.apply_relabel(X, gx)
    ident_before = bool(np.array_equal(Y, X))
    ident_after = bool(np.array_equal(Y2, X2))
    if c and ident_before != ident_after:
        rec.cls('excluded:self-rule-one-sided')
        raise Inconclusive()
    t = 2 * rm.tol(Y, X)
    Ya, Xa, Y2a, X2a = own(Y), own(X), own(Y2), own(X2)
    mi(Ya, Xa, not c)                 # an earlier call with the other flag on the same objects must not matter
    a, b = mi(Ya, Xa, c), mi(Y2a, X2a, c)
    changed = not (np.array_equal(Y, Y2) and np.array_equal(X, X2))
    nonconst = len(set(Y.tolist())) > 1 and len(set(X.tolist())) > 1
    rec.nt(changed and nonconst, key=[Y.tolist(), X.tolist(), fy, gx, c] if len(X) <= 64 else case)
    rec.cls('corrected' if c else 'plain', 'f=' + fy['t'], 'g=' + gx['t'])
    if 'gen' in case and case['gen'].get('fam') == 'manystrata':
        rec.cls('many-equally-frequent-values')
    if int(np.sum(X - Y)) == 0 and not ident_before:
        rec.cls('equal-sum-nonidentical')
    if not (math.isfinite(a) and math.isfinite(b)) or abs(a - b) > t:
        raise Violation(f'score changed under injective relabeling: before={a!r} after={b!r} (tol {t:.2e}), '
                        f'correction={c}, f={fy}, g={gx}')


def oracle_selfrule(case, rec):
    if 'lagged' in case:
        _, Ya, Xa = gens.build_lagged(case['lagged'])     # views of one buffer (may start at the same address)
        Y, X = Ya.astype(np.int64), Xa.astype(np.int64)
        rec.cls('views:' + case['lagged'].get('layout', 'windows'))
    else:
        Y, X = gens.materialize_pair(case)
        Ya, Xa = own(Y), own(X)      # the caller's arrays: scored several times below
    t = rm.tol(Y, X)
    if np.array_equal(Y, X):
        hx = rm.entropy(X)
        b, a = mi(Ya, Xa, False), mi(Ya, Xa, True)
        rec.cls('identical')
        rec.nt(hx > 0, key=['ident', X.tolist()])
        if abs(a - hx) > t or abs(b - hx) > t:
            raise Violation(f'self pair: corrected={a!r} plain={b!r} expected H(X)={hx!r}')
        return
    cref, pref = rm.corrected_ref(Y, X), rm.mi_ref(Y, X)
    plain = mi(Ya, Xa, False)
    got = mi(Ya, Xa, True)
    eqsum = int(np.sum(X - Y)) == 0
    distinguishable = abs(cref - pref) > 10 * t
    rec.cls('equal-sum' if eqsum else 'different-sum')
    if np.array_equal(X - X.min(), Y - Y.min()):
        rec.cls('same-partition-shifted-codes')
    rec.nt((eqsum or np.array_equal(X - X.min(), Y - Y.min())) and distinguishable, key=['ne', Y.tolist(), X.tolist()])
    if abs(plain - pref) > t:
        raise Violation(f'non-identical pair: uncorrected score {plain!r} != plug-in MI {pref!r}')
    if abs(got - cref) > t:
        raise Violation(f'non-identical pair (sum(X-Y)={int(np.sum(X - Y))}): corrected score {got!r} != '
                        f'H(Y*|X)-H(Y|X)={cref!r}; uncorrected plug-in MI would be {pref!r} (scored after an uncorrected call on '
                        f'the same array objects)')
    again = mi(Ya, Xa, True)
    if abs(again - cref) > t:
        raise Violation(f'non-identical pair: corrected score on the third call with the same array objects is {again!r}, '
                        f'reference {cref!r}')


def _rename_map(values, seed):
    """Injective renaming of string values that changes their sort order."""
    rng = np.random.Generator(np.random.PCG64(seed))
    vals = sorted(values)
    perm = rng.permutation(len(vals)).tolist()
    return {v: f'{perm[i]:04d}|{v}' for i, v in enumerate(vals)}


def oracle_pipeline(case, rec):
    cols = case['cols']
    names = [f'f{i}' for i in range(len(cols))]
    names[case['label_pos']] = 'label'
    df = pd.DataFrame({n: c for n, c in zip(names, cols)})
    df2 = pd.DataFrame({n: [(_rename_map(set(c), case['rename_seed'] + i))[v] for v in c]
                        for i, (n, c) in enumerate(zip(names, cols))})
    if case.get('object_dtype'):
        df, df2 = df.astype(object), df2.astype(object)
        rec.cls('object-dtype-columns')
    args = stubs.make_args(heuristic='MI-numba-randomized',
                           target_ranking_only='False' if case['pairwise'] else 'True')

    def scores(frame):
        stubs.reset_globals()
        out = mixed_rank_graph(frame, args, stubs.InlinePool(), stubs.PBar()).triplet_scores
        d = {}
        for a, b, s in out:
            d.setdefault((a, b), []).append(float(s))
        return d
    s1, s2 = scores(df), scores(df2)
    nonconst = sum(1 for c in cols if len(set(c)) > 1)
    order_changed = any(
        [sorted(set(c)).index(v) for v in c] !=
        [sorted(set(_rename_map(set(c), case['rename_seed'] + i).values())).index(_rename_map(set(c), case['rename_seed'] + i)[v]) for v in c]
        for i, c in enumerate(cols))
    rec.nt(nonconst >= 2 and order_changed, key=case)
    rec.cls('pairwise' if case['pairwise'] else 'target-only')
    if set(s1) != set(s2):
        raise Violation(f'pairs differ after renaming values: {sorted(set(s1) ^ set(s2))[:4]}')
    def codes(frame, col):
        vals = frame[col].tolist()
        order = sorted(set(vals))
        return [order.index(v) for v in vals]
    for k in s1:
        if k[0] != k[1] and (codes(df, k[0]) == codes(df, k[1])) != (codes(df2, k[0]) == codes(df2, k[1])):
            # the self-pair rule (element-wise identical codes) applies in one frame only: the two
            # statements of the property pull in different directions, not asserted
            rec.cls('excluded-pair:self-rule-one-sided')
            continue
        if len(s1[k]) != len(s2[k]) or any(abs(a - b) > 1e-4 for a, b in zip(sorted(s1[k]), sorted(s2[k]))):
            raise Violation(f'pipeline score of {k} changed after an injective renaming of the cell values: '
                            f'{s1[k]} -> {s2[k]}')


@st.composite
def pipeline_wide_case(draw):
    """A mini-batch with an id-like column of 33 000 - 40 000 distinct values (more category codes than 16 bits number), each seen twice,
    scored through the batch coding of mixed_rank_graph before and after an order-changing renaming of the ids."""
    return {'k': draw(st.integers(33_000, 40_000)), 'seed': draw(st.integers(0, 2**32 - 1)), 'classes': draw(st.integers(2, 5))}


def oracle_pipeline_wide(case, rec):
    k = int(case['k'])
    rng = np.random.Generator(np.random.PCG64(int(case['seed'])))
    ids = np.repeat(np.arange(k), 2)[rng.permutation(2 * k)]
    lab = (ids % int(case['classes']) + (rng.random(2 * k) < 0.3)) % int(case['classes'])
    perm = rng.permutation(k)
    df1 = pd.DataFrame({'ident': [f'u{int(i):06d}' for i in ids], 'label': [str(int(v)) for v in lab]})
    df2 = pd.DataFrame({'ident': [f'{int(perm[i]):06d}|u{int(i)}' for i in ids], 'label': [str(int(v)) for v in lab]})
    args = stubs.make_args(heuristic='MI-numba-randomized', target_ranking_only='True')

    def scores(frame):
        stubs.reset_globals()
        return {(a, b): float(sc) for a, b, sc in mixed_rank_graph(frame, args, stubs.InlinePool(), stubs.PBar()).triplet_scores}
    s1, s2 = scores(df1), scores(df2)
    rec.nt(True, key=case)
    rec.cls('batch-column>2^15-distinct-values')
    for key in s1:
        if key not in s2 or abs(s1[key] - s2[key]) > 1e-4:
            raise Violation(f'pipeline score of {key} changed after an injective, order-changing renaming of {k} id values '
                            f'(each seen twice): {s1[key]!r} -> {s2.get(key)!r}', kind='C02/pipeline-coding')


ORACLES = {'C02/long-relabel': oracle_relabel, 'C02/pipeline-wide': oracle_pipeline_wide, 'C02/exception': oracle_selfrule, 'C02/many-strata': oracle_relabel, 'C02/relabel-invariance': oracle_relabel, 'C02/self-pair-rule': oracle_selfrule,
           'C02/pipeline-coding': oracle_pipeline}


def run(ctx):
    clauses = [
        Clause('C02/relabel-invariance', relabel_case, oracle_relabel, quick=2000, thorough=300000, quick_shards=4),
        Clause('C02/self-pair-rule', selfrule_case, oracle_selfrule, quick=1500, thorough=150000, quick_shards=3),
        Clause('C02/many-strata', manystrata_relabel_case, oracle_relabel, quick=4, thorough=48, quick_shards=4, thorough_shards=16),
        Clause('C02/long-relabel', long_relabel_case, oracle_relabel, quick=8, thorough=200, quick_shards=4, thorough_shards=16),
        Clause('C02/pipeline-coding', frame_case, oracle_pipeline, quick=300, thorough=24000, quick_shards=3),
        Clause('C02/pipeline-wide', pipeline_wide_case, oracle_pipeline_wide, quick=1, thorough=12, quick_shards=1, thorough_shards=12),
    ]
    drive(ctx, clauses)
    directed = ctx.stats.classes.get('equal-sum-nonidentical', 0) + ctx.stats.classes.get('equal-sum', 0)
    ctx.extra['directed_equal_sum_cases'] = directed
