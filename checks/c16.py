"""C16 - line parsers keep every field in its column and never mis-align.

Also the coverage-guided campaign of the thorough tier: ``python checks/c16.py --atheris OUT RUNS SECONDS SEED [skip-kind ...]``
runs the round-trip oracles under atheris (libFuzzer) with outrank.core_utils instrumented."""
from __future__ import annotations

import csv
import functools
import io
import json
import os
import shutil
import subprocess
import sys
import tempfile

import numpy as np
from types import SimpleNamespace

_FUZZ_CHILD = __name__ == '__main__' and '--atheris' in sys.argv
if _FUZZ_CHILD:
    # the instrumented import must happen before anything else imports outrank.core_utils
    sys.path.insert(0, os.path.dirname(os.path.dirname(os.path.abspath(__file__))))
    from vlib import harness as _h
    _h.setup_environment()
    import logging as _logging
    _logging.disable(_logging.CRITICAL)
    import atheris
    with atheris.instrument_imports(include=['outrank.core_utils'], enable_loader_override=False):
        import outrank.core_utils  # noqa: F401

from hypothesis import strategies as st

from vlib import stubs
from vlib.harness import Clause, HarnessError, Rec, VERIF_DIR, Violation, classify_exception, drive, jdump

from outrank import core_ranking as cr
from outrank import core_utils as cu

ID = 'C16'
RULE = ('Tables of 1-6 columns x 1-6 rows of string cells (no \\n / \\r; alphabet weighted towards comma, double quote, tab, '
        'space, apostrophe, pipe, NBSP and other unicode white space, control characters, non-BMP characters; empty cells forced '
        'first / last / everywhere in a share of rows) rendered as CSV by csv.writer (QUOTE_MINIMAL or QUOTE_ALL), as '
        'tab-separated text by "\\t".join (cells without tabs) and, for VW, from a generated namespace map (1-6 ids of 1-2 '
        'characters without "_", "|", comma, white space) with per row a generated subset of namespaces in generated order, 0-3 '
        'tokens (>= 2 characters, no ASCII white space, no "|"; non-separator blanks such as NBSP may occur strictly inside a token) each, label token optionally followed by weight / tag tokens; each line '
        'is offered with and without its "\\n" terminator. Arity clauses: 2-8 rows of which a generated subset has cells added or '
        'removed, written to a file and streamed through estimate_importances_minibatches (minibatch size 1-3, owned pool, spy on '
        'compute_batch_ranking). Namespace maps: 0-8 lines of 2- and 3-field entries (types f32 / others), blank lines. '
        'Non-trivial: round trip - a row with an empty first or last cell or a cell containing the delimiter or a quote, VW - a '
        'row with an absent namespace; arity - at least one rejected row with an accepted neighbour; namespace map - at least one '
        'f32 and one non-f32 entry.')
ASSUMPTIONS = [
    'a well-formed data line is the rendered row optionally followed by its "\\n" terminator; the terminator is not part of any field',
    'VW: both readings of "without their two-character prefix" are accepted: "-".join(tokens)[2:] and "-".join(t[2:] for t in tokens)',
    'rows reach a mini-batch exactly as the first positional argument of compute_batch_ranking (observed by replacing that module '
    'attribute from the harness; the replacement returns an empty ranking so that nothing downstream of the parser runs)',
    'a tail of fewer rows than the mini-batch size never forms a batch (tail batches need > 1024 rows); it is not asserted',
    'namespace map files are ASCII (the reader opens them with the locale encoding)',
]

_BASE = None  # per-run scratch directory created by run(); oracles fall back to a per-case directory (replay)


def _workdir(prefix):
    """-> (directory, remove_after)"""
    if _BASE is not None and os.path.isdir(_BASE):
        d = os.path.join(_BASE, f'{prefix}{os.getpid()}')
        os.makedirs(d, exist_ok=True)
        return d, False
    return tempfile.mkdtemp(prefix='c16' + prefix, dir='/tmp'), True


# ---- alphabets -------------------------------------------------------------------------------------

SPECIAL = [',', '"', '\t', ' ', "'", '|', '-', '_', ';', ':', '\\', '\xa0', '\u2003', '\u2009', '\x0b', '\x0c', '\x1c',
           '\x1f', '\x85', '\x00', '\x7f', 'a', 'B', '0', '1', '\xe9', '\xdf', '\u65e5', '\U0001f600', '\ufeff', '{', '}', '#', '=']
ANY_CHAR = st.characters(exclude_characters='\n\r', exclude_categories=['Cs'])


@functools.lru_cache(maxsize=None)
def cell_strategy(no_tab=False):
    special = [c for c in SPECIAL if not (no_tab and c == '\t')]
    anyc = st.characters(exclude_characters='\n\r\t' if no_tab else '\n\r', exclude_categories=['Cs'])
    return st.one_of(
        st.just(''),
        st.text(alphabet=st.sampled_from(special), min_size=0, max_size=5),
        st.text(alphabet=st.sampled_from(special), min_size=1, max_size=3),
        st.text(alphabet=anyc, min_size=0, max_size=4),
        st.sampled_from(['1.0', 'TS', '23', '{"a":1,"b":"x"}', 'x,y', '""', ' lead', 'trail ', ' ', '  ']),
    )


@functools.lru_cache(maxsize=None)
def _cells_strategy(ncols, no_tab):
    return st.lists(cell_strategy(no_tab), min_size=ncols, max_size=ncols)


_SHAPE = st.sampled_from(['asis', 'asis', 'first', 'last', 'both', 'all'])


@st.composite
def row_strategy(draw, ncols, no_tab):
    cells = list(draw(_cells_strategy(ncols, no_tab)))
    shape = draw(_SHAPE)
    if shape in ('first', 'both'):
        cells[0] = ''
    if shape in ('last', 'both'):
        cells[-1] = ''
    if shape == 'all':
        cells = [''] * ncols
    return cells


@st.composite
def table_case(draw, no_tab):
    ncols = draw(st.integers(1, 6))
    rows = draw(st.lists(row_strategy(ncols, no_tab), min_size=1, max_size=6))
    return {'ncols': ncols, 'rows': rows, 'quote_all': draw(st.booleans())}


def render_csv(cells, quote_all=False):
    buf = io.StringIO()
    csv.writer(buf, lineterminator='\n', quoting=csv.QUOTE_ALL if quote_all else csv.QUOTE_MINIMAL).writerow(cells)
    s = buf.getvalue()
    if not s.endswith('\n') or '\n' in s[:-1] or '\r' in s:
        raise HarnessError(f'csv rendering of {cells!r} contains a line break')
    return s[:-1]


def render_tsv(cells):
    if any('\t' in c or '\n' in c or '\r' in c for c in cells):
        raise HarnessError(f'tab or line break inside a TSV cell: {cells!r}')
    return '\t'.join(cells)


def header_for(ncols):
    return [f'c{i}' for i in range(ncols)]


def _interesting(cells, delim):
    return cells[0] == '' or cells[-1] == '' or any(delim in c or '"' in c for c in cells)


# ---- round trips -----------------------------------------------------------------------------------

def oracle_csv(case, rec):
    header = header_for(case['ncols'])
    nt = False
    for cells in case['rows']:
        line = render_csv(cells, case['quote_all'])
        nt = nt or _interesting(cells, ',')
        for source in ('csv-raw', 'ob-csv'):
            args = stubs.make_args(data_source=source)
            for term in ('\n', ''):
                # callers hand over the delimiter they happen to hold (the streaming loop defaults to a tab, instance ranking
                # hard-codes one): a CSV line is comma-separated whatever that argument says
                for delim in (',', '\t', None):
                    got = cu.generic_line_parser(line + term, delim, args, None, header)
                    if got != cells:
                        raise Violation(f'{source}: line {line + term!r} (delimiter argument {delim!r}) parsed to {got!r}, '
                                        f'fields are {cells!r}')
    rec.nt(nt, key=['csv', case['rows'], case['quote_all']])
    rec.cls('quote-all' if case['quote_all'] else 'quote-minimal')
    _row_classes(rec, case['rows'], ',')


def oracle_tsv(case, rec):
    header = header_for(case['ncols'])
    args = stubs.make_args(data_source='ob-raw-dump')
    nt = False
    for cells in case['rows']:
        line = render_tsv(cells)
        nt = nt or _interesting(cells, '\t')
        for term in ('\n', ''):
            got = cu.generic_line_parser(line + term, '\t', args, None, header)
            if got != cells:
                raise Violation(f'ob-raw-dump: line {line + term!r} parsed to {got!r}, fields are {cells!r}')
    rec.nt(nt, key=['tsv', case['rows']])
    _row_classes(rec, case['rows'], '\t')


def _row_classes(rec, rows, delim):
    labels = set()
    for cells in rows:
        if cells[0] == '':
            labels.add('empty-first')
        if cells[-1] == '':
            labels.add('empty-last')
        if all(c == '' for c in cells):
            labels.add('all-empty')
        if any(delim in c for c in cells):
            labels.add('delimiter-in-cell')
        if any('"' in c for c in cells):
            labels.add('quote-in-cell')
        if any(c != c.strip() for c in cells):
            labels.add('edge-whitespace-in-cell')
        if any(ord(ch) > 127 for c in cells for ch in c):
            labels.add('non-ascii')
    rec.cls(*sorted(labels))


# ---- VW --------------------------------------------------------------------------------------------

def _vw_char_ok(ch):
    return not ch.isspace() and ch not in '|\n\r'


VW_SPECIAL = [c for c in SPECIAL + [':', '^', '.', '/', 'x', 'Y', '7'] if _vw_char_ok(c)]
VW_ANY = st.characters(exclude_categories=['Cs', 'Zs', 'Zl', 'Zp', 'Cc'], exclude_characters='|\x85')
ID_CHARS = [c for c in 'ABCDEFGHabcdefgh0123456789-.:^#\xe9\xdf\u65e5' if c not in '_|, ']


INNER_BLANKS = '\xa0\u2009\u3000\u2003'   # blanks that are NOT VW separators (only the ASCII space is): legal inside a token


def _vw_token_ok(t):
    return bool(t) and _vw_char_ok(t[0]) and _vw_char_ok(t[-1]) and all(_vw_char_ok(c) or c in INNER_BLANKS for c in t)


def _with_inner_blank(t):
    base, pos, blank = t
    pos = 1 + pos % (len(base) - 1)
    return base[:pos] + blank + base[pos:]


@functools.lru_cache(maxsize=None)
def vw_token(min_size=2):
    inner = st.tuples(st.text(alphabet=st.sampled_from(VW_SPECIAL), min_size=2, max_size=5), st.integers(0, 10),
                      st.sampled_from(list(INNER_BLANKS))).map(_with_inner_blank)
    return st.one_of(
        inner,
        st.text(alphabet=st.sampled_from(VW_SPECIAL), min_size=min_size, max_size=6),
        st.text(alphabet=VW_ANY, min_size=min_size, max_size=5).filter(lambda s: all(_vw_char_ok(c) for c in s)),
        st.sampled_from(['aa123', 'ab', 'xx-1', 'ck:0.5', 'ab--', '--', '-a-']),
    )


@st.composite
def vw_case(draw):
    ids = draw(st.lists(st.text(alphabet=st.sampled_from(ID_CHARS), min_size=1, max_size=2), min_size=1, max_size=6,
                        unique=True))
    feats = [f'feat{i}' for i in range(len(ids))]
    order = draw(st.permutations(list(range(len(ids)))))
    nsmap = [[ids[i], feats[j]] for i, j in enumerate(order)]
    rows = []
    for _ in range(draw(st.integers(1, 5))):
        label = draw(st.one_of(st.sampled_from(['1', '-1', '0', '0.25', '+1']), vw_token(min_size=1)))
        extra = draw(st.lists(st.one_of(st.sampled_from(['0.5', '2', "'tag", "'t1"]), vw_token(min_size=1)), max_size=2))
        present = draw(st.lists(st.integers(0, len(ids) - 1), unique=True, max_size=len(ids)))
        ns = [[i, draw(st.lists(vw_token(), max_size=3))] for i in present]
        rows.append({'label': label, 'extra': extra, 'ns': ns, 'tight': draw(st.integers(0, 7)) == 0,
                     'wide': draw(st.integers(0, 7)) == 0})
    return {'map': nsmap, 'rows': rows, 'target': draw(st.sampled_from([0, 0, 1, 2, 3]))}


def render_vw(nsmap, row):
    for s in [row['label']] + row['extra']:
        if not s or not _vw_token_ok(s):
            raise HarnessError(f'bad VW head token {s!r}')
    sp = '  ' if row['wide'] else ' '
    out = row['label'] + ''.join(' ' + e for e in row['extra'])
    for i, toks in row['ns']:
        for t in toks:
            if len(t) < 2 or not _vw_token_ok(t):
                raise HarnessError(f'bad VW token {t!r}')
        out += ('' if row['tight'] else ' ') + '|' + nsmap[i][0] + ''.join(sp + t for t in toks)
    return out


def oracle_vw(case, rec):
    nsmap = case['map']
    fw_col_mapping = {i: f for i, f in nsmap}
    if len(fw_col_mapping) != len(nsmap) or len({f for _, f in nsmap}) != len(nsmap):
        raise HarnessError('namespace ids / features must be unique')
    header = ['label'] + [f for _, f in nsmap]
    # the ranking target may be any column (--label_column): parsing must not depend on it
    target = header[int(case.get('target', 0)) % len(header)]
    args = stubs.make_args(data_source='ob-vw', label_column=target)
    nt = False
    labels = set()
    for row in case['rows']:
        line = render_vw(nsmap, row)
        present = {nsmap[i][1]: toks for i, toks in row['ns']}
        if len(present) < len(nsmap):
            nt = True
            labels.add('absent-namespace')
        if any(len(t) > 1 for t in present.values()):
            labels.add('multi-token')
        if any(len(t) == 0 for t in present.values()):
            labels.add('empty-namespace')
        for term in ('\n', ''):
            got = cu.generic_line_parser(line + term, None, args, fw_col_mapping, header)
            if not isinstance(got, list) or len(got) != len(header):
                raise Violation(f'ob-vw: line {line + term!r} parsed to {got!r}: length differs from the header {header}')
            if got[0] != row['label']:
                raise Violation(f'ob-vw: line {line + term!r}: label {got[0]!r}, first token is {row["label"]!r}')
            for j, feat in enumerate(header[1:], start=1):
                if feat in present:
                    toks = present[feat]
                    accepted = {'-'.join(toks)[2:], '-'.join(t[2:] for t in toks)}
                    if got[j] not in accepted:
                        raise Violation(f'ob-vw: line {line + term!r}: column {feat!r} holds {got[j]!r}, tokens {toks} '
                                        f'give one of {sorted(accepted)}')
                elif got[j] is not None:
                    raise Violation(f'ob-vw: line {line + term!r}: namespace of column {feat!r} is absent but the column '
                                    f'holds {got[j]!r}')
    rec.nt(nt, key=['vw', case])
    rec.cls(*sorted(labels))


# ---- namespace map ---------------------------------------------------------------------------------

FEAT_CHARS = 'abcXYZ019_-. '
TYPES = ['f32', 'f32', 'generic', 'str', 'u32', 'F32', 'f64', 'f3', 'f322', '']


@st.composite
def nsmap_case(draw):
    n = draw(st.integers(0, 8))
    ids = draw(st.lists(st.text(alphabet=st.sampled_from([c for c in ID_CHARS if ord(c) < 128]), min_size=1, max_size=2),
                        min_size=n, max_size=n, unique=True))
    feats = draw(st.lists(st.text(alphabet=st.sampled_from(FEAT_CHARS), min_size=1, max_size=8)
                          .filter(lambda s: s == s.strip()), min_size=n, max_size=n, unique=True))
    lines = []
    for i, f in zip(ids, feats):
        while draw(st.integers(0, 5)) == 0:
            lines.append({'blank': draw(st.sampled_from(['', ' ', '\t', '  ']))})
        if draw(st.booleans()):
            lines.append({'id': i, 'feature': f, 'type': draw(st.sampled_from(TYPES))})
        else:
            lines.append({'id': i, 'feature': f})
    if draw(st.integers(0, 3)) == 0:
        lines.append({'blank': ''})
    return {'lines': lines, 'final_newline': draw(st.booleans())}


def oracle_nsmap(case, rec):
    text_lines, exp_map, exp_f32 = [], {}, set()
    for ln in case['lines']:
        if 'blank' in ln:
            text_lines.append(ln['blank'])
            continue
        if 'type' in ln:
            text_lines.append(f"{ln['id']},{ln['feature']},{ln['type']}")
            if ln['type'] == 'f32':
                exp_f32.add(ln['feature'])
        else:
            text_lines.append(f"{ln['id']},{ln['feature']}")
        exp_map[ln['id']] = ln['feature']
    content = '\n'.join(text_lines) + ('\n' if case['final_newline'] and text_lines else '')
    content.encode('ascii')
    d, remove = _workdir('ns-')
    try:
        path = os.path.join(d, 'vw_namespace_map.csv')
        with open(path, 'w', encoding='ascii', newline='') as fh:
            fh.write(content)
        float_set, id_map = cu.parse_namespace(path)
    finally:
        if remove:
            shutil.rmtree(d, ignore_errors=True)
    kinds = {ln.get('type') == 'f32' for ln in case['lines'] if 'blank' not in ln}
    rec.nt(kinds == {True, False}, key=['ns', content])
    rec.cls('lines=%d' % min(len(text_lines), 9))
    if dict(id_map) != exp_map:
        raise Violation(f'namespace map file {content!r}: id->feature map {dict(id_map)!r}, declared {exp_map!r}')
    if set(float_set) != exp_f32:
        raise Violation(f'namespace map file {content!r}: float features {sorted(float_set)!r}, declared f32 '
                        f'{sorted(exp_f32)!r}')


# ---- wrong arity: function level + streaming loop -----------------------------------------------------

@st.composite
def arity_case(draw, fmt):
    no_tab = fmt == 'tsv'
    ncols = draw(st.integers(1, 5)) if draw(st.integers(0, 11)) else draw(st.sampled_from([255, 256, 257, 300]))   # wide tables too
    rows = []
    for _ in range(draw(st.integers(2, 8)) if ncols < 100 else 2):
        cells = draw(row_strategy(ncols, no_tab))
        ok = draw(st.integers(0, 2)) != 0
        if not ok:
            mode = draw(st.sampled_from(['add-end', 'add-start', 'add-mid', 'drop-end', 'drop-start', 'add2', 'drop2']))
            extra = draw(cell_strategy(no_tab))
            if mode.startswith('drop') and ncols - (2 if mode == 'drop2' else 1) < 1:
                mode = 'add-end'
            if mode == 'add-end':
                cells = cells + [extra]
            elif mode == 'add-start':
                cells = [extra] + cells
            elif mode == 'add-mid':
                cells = cells[:ncols // 2] + [extra] + cells[ncols // 2:]
            elif mode == 'add2':
                cells = cells + [extra, '']
            elif mode == 'drop-end':
                cells = cells[:-1]
            elif mode == 'drop-start':
                cells = cells[1:]
            else:
                cells = cells[1:-1]
        elif ncols < 100 and draw(st.integers(0, 15)) == 0:
            # a well-formed row with one very long cell (a JSON dump, a long multi-value list): 66 000 - 120 000 characters, below
            # the csv module's 131 072-character field limit
            cells = {'cells': cells, 'long': [draw(st.integers(0, ncols - 1)), draw(st.integers(66_000, 120_000))]}
        if not ok and fmt == 'csv' and ncols >= 2 and draw(st.integers(0, 3)) == 0:
            # a record cut inside a quoted field (interrupted write): the quote is never closed on this line -> too few fields
            j = draw(st.integers(0, ncols - 2))
            cells = {'raw': ','.join(render_csv([c]) for c in row_strategy_cells(draw, ncols, no_tab)[:j]) +
                     (',' if j else '') + '"' + draw(st.sampled_from(['blue sho', 'x', 'a,b', '']))}
        rows.append(cells)
    if ncols < 100 and draw(st.integers(0, 5)) == 0:
        # a well-formed data row whose cells happen to be the column names (a legend row, a repeated header of a concatenated dump)
        rows.insert(draw(st.integers(0, len(rows))), header_for(ncols))
    return {'fmt': fmt, 'ncols': ncols, 'rows': rows, 'm': draw(st.integers(1, 3)),
            'quote_all': draw(st.booleans()), 'final_newline': draw(st.booleans())}


def row_strategy_cells(draw, ncols, no_tab):
    return draw(row_strategy(ncols, no_tab))


def expand_row(row):
    """-> (cells or None, raw line or None)"""
    if isinstance(row, dict):
        if 'raw' in row:
            return None, row['raw']
        cells = list(row['cells'])
        j, L = row['long']
        cells[j] = ((cells[j] or 'v') * (L // max(1, len(cells[j] or 'v')) + 1))[:L]
        return cells, None
    return list(row), None


@st.composite
def long_stream_case(draw):
    """Files of 66 000 - 90 000 data lines (more than any read block) for the tab-separated and the csv sources: every well-formed
    line enters a mini-batch, in file order."""
    fmt = draw(st.sampled_from(['tsv', 'csv']))
    return {'fmt': fmt, 'ncols': draw(st.integers(2, 3)), 'lines': draw(st.integers(66_000, 90_000)), 'm': draw(st.sampled_from([5000, 8192, 20000])),
            'seed': draw(st.integers(0, 2**32 - 1)), 'bad_every': draw(st.sampled_from([0, 997, 4099])), 'final_newline': draw(st.booleans())}


def oracle_long_stream(case, rec):
    fmt, ncols, m, nlines = case['fmt'], int(case['ncols']), int(case['m']), int(case['lines'])
    header = header_for(ncols)
    rng = np.random.Generator(np.random.PCG64(int(case['seed'])))
    vals = rng.integers(0, 50, size=(nlines, ncols))
    rows = [[f'r{i}'] + [f'v{int(v)}' for v in vals[i, 1:]] for i in range(nlines)]
    be = int(case['bad_every'])
    if be:
        for i in range(be, nlines, be):
            rows[i] = rows[i][:-1] if ncols > 1 else rows[i] + ['x']      # a wrong-arity line now and then
    delim = '\t' if fmt == 'tsv' else ','
    lines = [delim.join(r) for r in rows]
    expected = [r for r in rows if len(r) == ncols]
    expected = expected[:(len(expected) // m) * m + (len(expected) % m if len(expected) % m > 1024 else 0)]
    rec.nt(True, key=case)
    rec.cls('long-stream:' + fmt)
    for source in (('ob-raw-dump',) if fmt == 'tsv' else ('csv-raw',)):
        captured = stream_batches(lines, header, source, delim, m, case['final_newline'])
        flat = [r for batch, _ in captured for r in batch]
        if flat != expected:
            i = next((k for k, (a, b) in enumerate(zip(flat, expected)) if a != b), min(len(flat), len(expected)))
            raise Violation(f'{source}: {len(flat)} rows entered mini-batches (sizes {[len(b) for b, _ in captured]}), the file has '
                            f'{len(expected)} well-formed rows to consume (minibatch_size {m}, {nlines} lines); first difference at row {i}: '
                            f'got {flat[i] if i < len(flat) else None}, expected {expected[i] if i < len(expected) else None}',
                            kind='C16/long-stream')


class _Logger:
    def info(self, *a, **k):
        pass

    warning = error = debug = info


def stream_batches(lines, header, source, delimiter, m, final_newline=True):
    """Feed lines (after a header line) through the streaming loop; returns the list of batches (lists of rows)
    handed to compute_batch_ranking and the column descriptions they were handed with."""
    captured = []

    def spy(line_tmp_storage, numeric_column_types, args, cpu_pool, column_descriptions, logger, pbar):
        captured.append(([list(r) for r in line_tmp_storage], list(column_descriptions)))
        return SimpleNamespace(triplet_scores=[], step_times={}), {}, {}, {}

    d, remove = _workdir('st-')
    cwd = os.getcwd()
    orig = cr.compute_batch_ranking
    try:
        path = os.path.join(d, 'data.csv')
        with open(path, 'w', encoding='utf-8', newline='') as fh:
            fh.write(delimiter.join(header) + '\n')
            fh.write('\n'.join(lines) + ('\n' if final_newline or lines[-1] == '' else ''))
        os.chdir(d)
        stubs.reset_globals()
        cr.compute_batch_ranking = spy
        args = stubs.make_args(data_source=source, heuristic='Constant', minibatch_size=m, subsampling=1)
        cr.estimate_importances_minibatches(path, list(header), None, set(), batch_size=m, args=args,
                                            data_encoding='utf-8', cpu_pool=stubs.InlinePool(), delimiter=delimiter,
                                            logger=_Logger())
    finally:
        cr.compute_batch_ranking = orig
        os.chdir(cwd)
        if remove:
            shutil.rmtree(d, ignore_errors=True)
    return captured


def oracle_arity(case, rec):
    fmt, ncols, m = case['fmt'], case['ncols'], case['m']
    header = header_for(ncols)
    expanded = [expand_row(r) for r in case['rows']]
    rows_cells = [c if c is not None else ['<cut record>'] * (ncols + 1) for c, _ in expanded]
    if any(isinstance(r, dict) and 'long' in r for r in case['rows']):
        rec.cls('cell>65536-chars')
    if any(raw is not None for _, raw in expanded):
        rec.cls('record-cut-inside-quoted-field')
    if any(c == header for c, _ in expanded):
        rec.cls('data-row-equal-to-header')
    if fmt == 'csv':
        sources, delim = ('csv-raw', 'ob-csv'), ','
        lines = [raw if raw is not None else render_csv(c, case['quote_all']) for c, raw in expanded]
    else:
        sources, delim = ('ob-raw-dump',), '\t'
        lines = [render_tsv(c) for c, _ in expanded]
    case = dict(case, rows=rows_cells)
    good = [raw is None and len(c) == ncols for (c, raw) in expanded]
    nt = any((not g) and ((i > 0 and good[i - 1]) or (i + 1 < len(good) and good[i + 1])) for i, g in enumerate(good))
    rec.nt(nt, key=[fmt, case['rows'], m])
    rec.cls('fmt=' + fmt, 'm=%d' % m, 'rejected=%d' % min(3, good.count(False)))
    expected = [c for c, g in zip(case['rows'], good) if g]
    expected = expected[:(len(expected) // m) * m]
    for source in sources:
        args = stubs.make_args(data_source=source)
        for cells, line, g in zip(case['rows'], lines, good):
            got = cu.generic_line_parser(line + '\n', delim, args, None, header)
            if not g and len(got) == ncols:
                raise Violation(f'{source}: line {line!r} has {len(cells)} fields {cells!r} but parses to {ncols} = header '
                                f'length: {got!r}')
        captured = stream_batches(lines, header, source, delim, m, case['final_newline'])
        flat = []
        for batch, cols in captured:
            if cols != header:
                raise Violation(f'{source}: batch handed over with columns {cols}, header is {header}')
            if len(batch) != m:
                raise Violation(f'{source}: batch of {len(batch)} rows with minibatch_size={m}')
            flat.extend(batch)
        if flat != expected:
            bad_rows = [c for c, g in zip(case['rows'], good) if not g]
            raise Violation(f'{source}, minibatch_size={m}: rows entering batches {flat!r}; well-formed rows of the file, in '
                            f'order, are {expected!r} (wrong-arity rows: {bad_rows!r}; file lines {lines!r})')


ORACLES = {'C16/csv-roundtrip': oracle_csv, 'C16/tsv-roundtrip': oracle_tsv, 'C16/vw-roundtrip': oracle_vw,
           'C16/namespace-map': oracle_nsmap, 'C16/arity-stream-csv': oracle_arity, 'C16/arity-stream-tsv': oracle_arity,
           'C16/long-stream': oracle_long_stream}


def run(ctx):
    clauses = [
        Clause('C16/csv-roundtrip', lambda: table_case(False), oracle_csv, quick=3000, thorough=90000, quick_shards=3),
        Clause('C16/tsv-roundtrip', lambda: table_case(True), oracle_tsv, quick=3000, thorough=90000, quick_shards=3),
        Clause('C16/vw-roundtrip', vw_case, oracle_vw, quick=3000, thorough=90000, quick_shards=3),
        Clause('C16/namespace-map', nsmap_case, oracle_nsmap, quick=1200, thorough=30000, quick_shards=2),
        Clause('C16/arity-stream-csv', lambda: arity_case('csv'), oracle_arity, quick=750, thorough=20000, quick_shards=3),
        Clause('C16/arity-stream-tsv', lambda: arity_case('tsv'), oracle_arity, quick=600, thorough=20000, quick_shards=2),
        Clause('C16/long-stream', long_stream_case, oracle_long_stream, quick=2, thorough=24, quick_shards=2, thorough_shards=12),
    ]
    global _BASE
    _BASE = tempfile.mkdtemp(prefix='c16run-', dir='/tmp')
    try:
        fails = drive(ctx, clauses)
        if ctx.tier == 'thorough':
            atheris_campaign(ctx, skip_kinds=sorted({k.split('/exception')[0] for k in fails}))
        else:
            ctx.extra['atheris'] = 'thorough tier only'
    finally:
        shutil.rmtree(_BASE, ignore_errors=True)
        _BASE = None


# ---- coverage-guided campaign (thorough tier) ----------------------------------------------------------

FUZZ_KINDS = ['C16/csv-roundtrip', 'C16/tsv-roundtrip', 'C16/vw-roundtrip', 'C16/namespace-map']
FUZZ_RUNS = 400000
FUZZ_SECONDS = 120


def _fuzz_strategy(kinds):
    parts = {'C16/csv-roundtrip': lambda: table_case(False), 'C16/tsv-roundtrip': lambda: table_case(True),
             'C16/vw-roundtrip': vw_case, 'C16/namespace-map': nsmap_case}
    return st.one_of(*[parts[k]().map(lambda c, k=k: [k, c]) for k in kinds])


def atheris_campaign(ctx, skip_kinds=()):
    import importlib.util
    if importlib.util.find_spec('atheris') is None:
        ctx.extra['atheris'] = 'skipped: atheris is not importable (not installed in /verif/.deps)'
        return
    kinds = [k for k in FUZZ_KINDS if k not in skip_kinds]
    if not kinds:
        ctx.extra['atheris'] = 'skipped: every round-trip clause already failed in the generated search'
        return
    out = os.path.join(_BASE, 'atheris')
    corpus = os.path.join(out, 'corpus')
    os.makedirs(corpus)
    for name in ('data.csv', 'vw_namespace_map.csv'):
        src = os.path.join(os.environ.get('VERIF_REPO', '/repo'), 'tests', 'tests_files', name)
        if os.path.exists(src):
            shutil.copy(src, os.path.join(corpus, name))
    cmd = [sys.executable, os.path.abspath(__file__), '--atheris', out, str(FUZZ_RUNS), str(FUZZ_SECONDS),
           str(ctx.seed)] + [k for k in FUZZ_KINDS if k in skip_kinds]
    env = dict(os.environ, PYTHONHASHSEED='0')
    try:
        p = subprocess.run(cmd, env=env, capture_output=True, text=True, cwd=VERIF_DIR, timeout=FUZZ_SECONDS + 240)
        rc, tail = p.returncode, (p.stderr or '')[-4000:]
    except subprocess.TimeoutExpired as e:
        rc, tail = 'timeout', str(e.stderr or '')[-4000:]
    info = {'returncode': rc, 'kinds': kinds, 'runs_bound': FUZZ_RUNS, 'seconds_bound': FUZZ_SECONDS,
            'instrumented': ['outrank.core_utils']}
    stats_path = os.path.join(out, 'stats.json')
    if os.path.exists(stats_path):
        with open(stats_path) as fh:
            info.update(json.load(fh))
    for ln in tail.splitlines():
        if ln.startswith('Done ') or ' cov: ' in ln:
            info['last_libfuzzer_line'] = ln.strip()[:200]
    ctx.extra['atheris'] = info
    fpath = os.path.join(out, 'failure.json')
    if os.path.exists(fpath):
        with open(fpath) as fh:
            f = json.load(fh)
        base = f['kind'].split('/exception')[0]
        res = ctx.run_oracle(base, ORACLES[base], f['case'])
        if res is not None:
            ctx.report(res[0], f['case'], '[found by the atheris campaign, not shrunk] ' + res[1])
        else:
            info['unconfirmed_failure'] = f['detail'][:500]
    elif rc != 0 and 'evaluations' not in info:
        raise HarnessError(f'atheris child failed (rc={rc}) without running the target:\n{tail[-1500:]}')


def _fuzz_child(argv):
    global _BASE
    from hypothesis import HealthCheck, given, settings
    i = argv.index('--atheris')
    out, runs, seconds, seed = argv[i + 1], int(argv[i + 2]), int(argv[i + 3]), int(argv[i + 4])
    skip = set(argv[i + 5:])
    kinds = [k for k in FUZZ_KINDS if k not in skip]
    _BASE = out
    state = {'evaluations': 0, 'nontrivial': 0, 'per_kind': {k: 0 for k in kinds}}

    def dump_stats():
        with open(os.path.join(out, 'stats.json.tmp'), 'w') as fh:
            json.dump(state, fh)
        os.replace(os.path.join(out, 'stats.json.tmp'), os.path.join(out, 'stats.json'))

    def fail(kind, case, detail):
        with open(os.path.join(out, 'failure.json'), 'w') as fh:
            fh.write(jdump({'kind': kind, 'case': case, 'detail': detail}))
        dump_stats()

    @settings(database=None, deadline=None, suppress_health_check=list(HealthCheck))
    @given(_fuzz_strategy(kinds))
    def target(kc):
        kind, case = kc
        rec = Rec()
        try:
            ORACLES[kind](case, rec)
        except Violation as v:
            fail(v.kind or kind, case, v.detail)
            raise
        except HarnessError:
            raise
        except Exception as e:  # noqa: BLE001
            if classify_exception(e) == 'cut':
                fail(kind + '/exception', case, f'code under test raised {type(e).__name__}: {e}')
            raise
        state['evaluations'] += 1
        state['per_kind'][kind] += 1
        state['nontrivial'] += 1 if rec.nontrivial else 0
        if state['evaluations'] % 100 == 0:
            dump_stats()

    dump_stats()
    fargs = [argv[0], f'-runs={runs}', f'-max_total_time={seconds}', f'-seed={seed}', '-max_len=2048', '-len_control=0', '-print_final_stats=1', f'-artifact_prefix={out}/',
             os.path.join(out, 'corpus')]
    atheris.Setup(fargs, target.hypothesis.fuzz_one_input)
    atheris.Fuzz()


if _FUZZ_CHILD:
    _fuzz_child(sys.argv)
