"""C05 - each emitted score is the selected heuristic applied to the two coded columns."""
from __future__ import annotations

import glob
import math
import os
import re
from collections import Counter

import numpy as np
import pandas as pd
from hypothesis import strategies as st

from vlib import refmodels as rm, stubs
from vlib.harness import REPO, Clause, HarnessError, Violation, drive

from outrank.core_ranking import compute_batch_ranking, mixed_rank_graph

ID = 'C05'
RULE = ('Batches of 2-6 string columns x 2-300 rows (thorough: up to 3000 rows, so category codes leave int8/int16), column '
        'kinds: small pools with empty strings / unicode / shared prefixes, digit-only ids, high-cardinality ids (up to one value '
        'per row), functions and noisy copies of another column; label anywhere; target-only / pairwise; heuristic drawn from '
        'the documented non-surrogate names (scanned at run time from README, docs, examples, scripts, benchmarks, task_selftest '
        'and the names of the statement). Directed class for max-value-coverage: two high-cardinality columns whose two most '
        'frequent joint values sit at code distances (157, 851) that alias under a 10^6-bucket hash. Non-trivial = frame has '
        '>=2 non-constant columns and heuristic != Constant; distinct = digest of the case.')
ASSUMPTIONS = ['codes are recomputed by the harness as rank in sorted distinct values (what astype(category).cat.codes does)',
               'scipy.stats.pearsonr / sklearn adjusted_mutual_info_score called directly on harness codes ARE the named heuristics',
               'for label-free pairs either conditioning orientation is accepted']

STATEMENT_NAMES = ['MI', 'MI-numba-3mr', 'MI-numba-randomized', 'max-value-coverage', 'correlation-Pearson', 'AMI', 'Constant']


def documented_heuristics():
    files = [os.path.join(REPO, 'README.md'), os.path.join(REPO, 'docs', 'DOCSMAIN.md'),
             os.path.join(REPO, 'outrank', 'task_selftest.py'), os.path.join(REPO, 'outrank', 'core_utils.py'),
             os.path.join(REPO, 'outrank', '__main__.py')]
    for pat in ('examples/*.sh', 'scripts/*.sh', 'benchmarks/*.sh'):
        files += sorted(glob.glob(os.path.join(REPO, pat)))
    names = set()
    for f in files:
        try:
            text = open(f, encoding='utf-8', errors='replace').read()
        except OSError:
            continue
        names.update(re.findall(r'--heuristic[ =]+([A-Za-z0-9_.-]+)', text))
        names.update(re.findall(r"conduct_self_test\('([^']+)'\)", text))
    names = {n for n in names if not n.lower().startswith('surrogate')}
    return sorted(names | set(STATEMENT_NAMES))


HEURISTICS = documented_heuristics()
INTERACTION_NAMES = ['a', 'b', 'c', 'a AND b', 'b AND c', 'a AND c', 'a AND b AND c', 'c AND a']
# names that contain the label's name (label_prev, xlabel, ...): the label is a column NAME, not a substring
LABELISH_NAMES = ['label_prev', 'xlabel', 'label2', 'my label', 'Label', 'labe', 'abel', 'label-1']
POOL = ['', 'a', 'b', 'ab', 'abc', 'ba', '1', '11', '2', '10', '007', 'é', 'é', ' ', 'Z', 'z', '0', '-1', 'NaN', 'x,y',
        '{}', '日本', 'a b']


@st.composite
def column(draw, nrows, idx):
    kind = draw(st.sampled_from(['pool', 'pool', 'digits', 'highcard', 'fn', 'noisy']))
    if nrows <= 40 and kind == 'pool':
        k = draw(st.integers(1, 6))
        vals = draw(st.lists(st.sampled_from(POOL), min_size=k, max_size=k, unique=True))
        return {'vals': draw(st.lists(st.sampled_from(vals), min_size=nrows, max_size=nrows))}
    return {'kind': kind, 'k': draw(st.one_of(st.integers(1, 8), st.integers(1, max(1, nrows)))),
            'seed': draw(st.integers(0, 2**32 - 1)), 'src': draw(st.integers(0, max(0, idx - 1)))}


@st.composite
def frame_case(draw, max_rows=300):
    nrows = draw(st.one_of(st.integers(2, 40), st.integers(41, max_rows)))
    style = draw(st.sampled_from(['plain'] * 6 + ['interaction', 'labelish', 'wide']))
    # 'wide': 23-30 columns, i.e. more than 256 column pairs in pairwise mode (more than one block of any pair-blocked scheduling)
    ncols = draw(st.integers(23, 30)) if style == 'wide' else draw(st.integers(2, 6)) if style != 'interaction' else draw(st.integers(5, 6))
    if style == 'wide':
        nrows = min(nrows, 60)
    cols = [draw(column(nrows, i)) for i in range(ncols)]
    case = {'nrows': nrows, 'cols': cols, 'label_pos': draw(st.integers(0, ncols - 1)),
            'pairwise': draw(st.booleans()), 'heuristic': draw(st.sampled_from(HEURISTICS)),
            # the batch enters either at the rank-graph function or one level up, as the raw rows of a mini-batch
            'entry': draw(st.sampled_from(['mixed_rank_graph', 'mixed_rank_graph', 'compute_batch_ranking'])),
            # row labels of the frame handed to mixed_rank_graph (a frame that was shuffled / sorted / filtered before keeps its labels)
            'index': draw(st.sampled_from(['range', 'range', 'shuffled', 'gaps'])),
            # compute_batch_ranking entry: columns whose values are all numbers are declared numeric (as described sources do)
            'declare_numeric': draw(st.booleans()),
            # --mi_stratified_sampling_ratio below 1 concerns the MI-numba heuristics only (C04); every other heuristic scores all rows
            'ratio': draw(st.sampled_from([1.0, 1.0, 0.5, 0.3])), 'ref_json': draw(st.sampled_from([False, False, False, True]))}
    if style == 'wide':
        case['pairwise'] = True
        case['heuristic'] = draw(st.sampled_from(['max-value-coverage', 'MI-numba-randomized', 'MI-numba-3mr', 'correlation-Pearson']))
    if style == 'interaction':
        # column names as the tool itself builds them for interaction features ("a AND b"): name-based bookkeeping must not
        # confuse the pairs ('a AND b', 'c') and ('a', 'b AND c'); the four names are always present, the label sits elsewhere
        quartet = ['a AND b', 'c', 'a', 'b AND c']
        others = draw(st.permutations([n for n in INTERACTION_NAMES if n not in quartet]))[:ncols - 4]
        names = draw(st.permutations(quartet + list(others)))
        case['names'] = list(names)
        case['label_pos'] = names.index(draw(st.sampled_from(list(others))))
        case['pairwise'] = draw(st.sampled_from([True, True, False]))
    elif style == 'labelish':
        case['names'] = draw(st.permutations(LABELISH_NAMES))[:ncols]
        case['pairwise'] = draw(st.sampled_from([True, True, False]))
    return case


@st.composite
def alias_case(draw):
    """Directed: high-cardinality columns whose two heaviest joint values alias under (a*1471343-b) % 10^6."""
    a0 = draw(st.integers(0, 40))
    b0 = draw(st.integers(0, 40))
    k = draw(st.integers(2, 30))
    return {'alias': {'a0': a0, 'b0': b0, 'k': k, 'da': 157, 'db': 851, 'seed': draw(st.integers(0, 2**31))},
            'label_pos': draw(st.integers(0, 1)), 'pairwise': draw(st.booleans()), 'heuristic': 'max-value-coverage'}


def build_columns(case):
    if 'alias' in case:
        a = case['alias']
        na, nb = a['a0'] + a['da'] + 3, a['b0'] + a['db'] + 3
        n_base = max(na, nb)
        A = [f'a{i % na:05d}' for i in range(n_base)]
        B = [f'b{i % nb:05d}' for i in range(n_base)]
        A += [f'a{a["a0"]:05d}'] * a['k'] + [f'a{a["a0"] + a["da"]:05d}'] * (a['k'] - 1)
        B += [f'b{a["b0"]:05d}'] * a['k'] + [f'b{a["b0"] + a["db"]:05d}'] * (a['k'] - 1)
        rng = np.random.Generator(np.random.PCG64(a['seed']))
        perm = rng.permutation(len(A)).tolist()
        return [[A[i] for i in perm], [B[i] for i in perm]]
    nrows = case['nrows']
    cols = []
    for spec in case['cols']:
        if 'vals' in spec:
            cols.append(list(spec['vals']))
            continue
        rng = np.random.Generator(np.random.PCG64(int(spec['seed'])))
        k, kind = int(spec['k']), spec['kind']
        if kind == 'pool':
            vals = [POOL[i] for i in rng.permutation(len(POOL))[:max(1, min(k, len(POOL)))]]
            col = [vals[i] for i in rng.integers(0, len(vals), size=nrows)]
        elif kind == 'digits':
            col = [str(int(v)) for v in rng.integers(0, k, size=nrows)]
        elif kind == 'highcard':
            col = [f'id{int(v)}' for v in rng.integers(0, k, size=nrows)]
        elif kind in ('fn', 'noisy') and cols:
            src = cols[min(spec['src'], len(cols) - 1)]
            table = {}
            col = []
            for v in src:
                if v not in table:
                    table[v] = f'g{int(rng.integers(0, max(2, k)))}'
                col.append(table[v])
            if kind == 'noisy':
                for i in np.nonzero(rng.random(nrows) < 0.15)[0].tolist():
                    col[i] = f'g{int(rng.integers(0, max(2, k)))}'
        else:
            col = [f'h{int(v)}' for v in rng.integers(0, max(k, 1), size=nrows)]
        cols.append(col)
    return cols


def codes_of(col):
    order = {v: i for i, v in enumerate(sorted(set(col)))}
    return [order[v] for v in col]


def nan_eq(a, b, t):
    if isinstance(a, float) and math.isnan(a):
        return isinstance(b, float) and math.isnan(b)
    if isinstance(b, float) and math.isnan(b):
        return False
    return abs(a - b) <= t


def expected_scores(h, ca, cb, a_is_label, b_is_label):
    """-> list of acceptable expected values, tolerance."""
    if h == 'Constant':
        return [0.0], 0.0
    if h in ('MI', 'MI-numba-3mr'):
        return [rm.mi_ref(ca, cb)], rm.tol(ca, cb)
    if h == 'MI-numba-randomized':
        t = rm.tol(ca, cb)
        if a_is_label and b_is_label:
            return [rm.corrected_ref(ca, cb)], t
        if a_is_label:      # feature = b, target = a
            return [rm.corrected_ref(cb, ca)], t
        if b_is_label:
            return [rm.corrected_ref(ca, cb)], t
        return [rm.corrected_ref(ca, cb), rm.corrected_ref(cb, ca)], t
    if h == 'max-value-coverage':
        return [max(Counter(zip(ca, cb)).values()) / len(ca)], 1e-12
    if h == 'AMI':
        from sklearn.metrics import adjusted_mutual_info_score
        return [float(adjusted_mutual_info_score(ca, cb))], 1e-9
    if h == 'correlation-Pearson':
        import warnings
        from scipy.stats import pearsonr
        with warnings.catch_warnings():
            warnings.simplefilter('ignore')
            return [float(pearsonr(np.asarray(ca, dtype=np.int64), np.asarray(cb, dtype=np.int64))[0])], 1e-9
    raise HarnessError(f'no reference for documented heuristic name {h!r}: add one (the statement lists the semantics)')


_TMP_FILES = []


def oracle(case, rec):
    try:
        return _oracle(case, rec)
    finally:
        while _TMP_FILES:
            try:
                os.unlink(_TMP_FILES.pop())
            except OSError:
                pass


def _oracle(case, rec):
    cols = build_columns(case)
    ncols = len(cols)
    names = list(case['names'][:ncols]) if case.get('names') else [f'f{i}' for i in range(ncols)]
    if len(names) < ncols:
        names += [f'f{i}' for i in range(len(names), ncols)]
    lp = min(case['label_pos'], ncols - 1)
    names[lp] = 'label'
    if case.get('names'):
        rec.cls('interaction-style-names')
    df = pd.DataFrame(dict(zip(names, cols)))
    h = case['heuristic']
    if h == 'AMI' and len(cols[0]) > 400:
        h = 'MI'
    ratio = float(case.get('ratio', 1.0)) if 'numba' not in h else 1.0
    ref_path = None
    if 'numba' in h and case.get('ref_json'):
        # a reference model given next to a non-prior heuristic only adds context (the feature reaches the estimator as an (n, 1) block)
        import json as _json
        import tempfile as _tempfile
        fd, ref_path = _tempfile.mkstemp(prefix='c05-ref-', suffix='.json')
        _TMP_FILES.append(ref_path)
        with os.fdopen(fd, 'w') as fh:
            _json.dump({'desc': {'features': [n_ for n_ in names if n_ != 'label'][:1], 'fields': []}}, fh)
        rec.cls('reference-json-with-numba-heuristic')
    args = stubs.make_args(heuristic=h, target_ranking_only='False' if case['pairwise'] else 'True', mi_stratified_sampling_ratio=ratio,
                           reference_model_JSON=ref_path or '')
    if 'numba' in h and float(case.get('ratio', 1.0)) < 1.0 and ref_path is None:
        # history: the same process ranked this frame with a sampling ratio below 1 just before; the ratio of THIS call is 1
        prior = stubs.make_args(heuristic=h, target_ranking_only='False' if case['pairwise'] else 'True',
                                mi_stratified_sampling_ratio=float(case['ratio']))
        stubs.reset_globals()
        mixed_rank_graph(df.copy(), prior, stubs.InlinePool(), stubs.PBar())
        rec.cls('after-a-call-with-sampling-ratio<1')
    if ratio < 1.0:
        rec.cls('sampling-ratio<1-with-non-numba-heuristic')
    if ncols > 20:
        rec.cls('>256-column-pairs')
    stubs.reset_globals()
    if case.get('entry') == 'compute_batch_ranking' and len(set(names)) == len(names):
        import logging
        rows = [list(r) for r in zip(*cols)]
        numeric = set()
        if case.get('declare_numeric'):
            def _num(v):
                try:
                    return v == '' or math.isfinite(float(v))
                except ValueError:
                    return False
            numeric = {n for n, c in zip(names, cols) if n != 'label' and all(_num(v) for v in c) and any(v != '' for v in c)}
            if numeric:
                rec.cls('declared-numeric-columns')
        summary = compute_batch_ranking(rows, numeric, args, stubs.InlinePool(), list(names), logging.getLogger('c05'), stubs.PBar())[0]
        out = summary.triplet_scores
        rec.cls('entry=compute_batch_ranking')
    else:
        kind_ix = case.get('index', 'range')
        nrow = len(df)
        if kind_ix == 'shuffled' and nrow > 1:
            df.index = np.random.Generator(np.random.PCG64(nrow)).permutation(nrow)
            rec.cls('index=shuffled')
        elif kind_ix == 'gaps':
            df.index = [3 * i + 2 for i in range(nrow)]
        out = mixed_rank_graph(df, args, stubs.InlinePool(), stubs.PBar()).triplet_scores
    codes = {n: codes_of(c) for n, c in zip(names, cols)}
    nonconst = sum(1 for c in cols if len(set(c)) > 1)
    rec.nt(nonconst >= 2 and h != 'Constant', key=case)
    rec.cls('h=' + h, 'pairwise' if case['pairwise'] else 'target-only')
    mx = max(len(set(c)) for c in cols)
    rec.cls('codes:int8' if mx <= 127 else 'codes:int16' if mx <= 32767 else 'codes:int32')
    if 'alias' in case:
        rec.cls('directed-alias')
    if not out:
        raise Violation('no triplets produced for a non-empty frame')
    cache = {}
    for a, b, s in out:
        if a not in codes or b not in codes:
            raise Violation(f'triplet mentions unknown column: {(a, b)}')
        key = (a, b)
        if key not in cache:
            cache[key] = expected_scores(h, codes[a], codes[b], a == 'label', b == 'label')
        exp, t = cache[key]
        s = float(s)
        if not any(nan_eq(s, e, t) for e in exp):
            raise Violation(f'heuristic {h}: pair ({a}, {b}) scored {s!r}, expected {exp} (tol {t:.1e}); rows={len(cols[0])}, '
                            f'cardinalities=({len(set(codes[a]))}, {len(set(codes[b]))})')


@st.composite
def huge_case(draw):
    """A mini-batch of more than 10^6 rows (users may set --minibatch_size freely): block-wise shortcuts must still give the
    batch-level value."""
    return {'huge': {'n': draw(st.integers(1_050_000, 1_300_000)), 'seed': draw(st.integers(0, 2**32 - 1)),
                     'ka': draw(st.integers(2, 5)), 'kb': draw(st.integers(2, 4))},
            'heuristic': draw(st.sampled_from(['max-value-coverage', 'MI-numba-randomized']))}


def oracle_huge(case, rec):
    g = case['huge']
    rng = np.random.Generator(np.random.PCG64(int(g['seed'])))
    n = int(g['n'])
    # the heaviest joint value is spread over the whole batch, lighter ones are concentrated in blocks
    a = rng.integers(0, int(g['ka']), size=n)
    b = (a + rng.integers(0, int(g['kb']), size=n)) % int(g['kb'])
    block = (np.arange(n) // 400_000) % 2
    a = np.where((block == 1) & (rng.random(n) < 0.3), int(g['ka']), a)
    df = pd.DataFrame({'device': np.char.add('d', a.astype(str)), 'label': np.char.add('l', b.astype(str))})
    h = case['heuristic']
    args = stubs.make_args(heuristic=h, target_ranking_only='True')
    stubs.reset_globals()
    out = mixed_rank_graph(df, args, stubs.InlinePool(), stubs.PBar()).triplet_scores
    ca, cb = a.tolist(), b.tolist()
    codes = {'device': ca, 'label': cb}
    rec.nt(True, key=case)
    rec.cls('huge-batch:h=' + h)
    for x, y, s in out:
        exp, t = expected_scores(h, codes[x], codes[y], x == 'label', y == 'label')
        if not any(nan_eq(float(s), e, t) for e in exp):
            raise Violation(f'heuristic {h}: pair ({x}, {y}) scored {float(s)!r} on a batch of {n} rows, expected {exp} (tol {t:.1e})',
                            kind='C05/huge-batch')


@st.composite
def ami_highcard_case(draw):
    """AMI on two columns whose cardinality product exceeds 10^6 (e.g. user x item ids in a batch of a few thousand rows)."""
    return {'amihc': {'n': draw(st.integers(3200, 4200)), 'ka': draw(st.integers(1300, 1700)), 'kb': draw(st.integers(1000, 1300)),
                      'seed': draw(st.integers(0, 2**32 - 1))}}


def oracle_ami_highcard(case, rec):
    from sklearn.metrics import adjusted_mutual_info_score
    g = case['amihc']
    rng = np.random.Generator(np.random.PCG64(int(g['seed'])))
    n = int(g['n'])
    a = rng.integers(0, int(g['ka']), size=n)
    b = (a * 7 + rng.integers(0, 40, size=n)) % int(g['kb'])
    df = pd.DataFrame({'user': [f'u{v}' for v in a], 'label': [f'i{v}' for v in b]})
    args = stubs.make_args(heuristic='AMI', target_ranking_only='True')
    stubs.reset_globals()
    out = mixed_rank_graph(df, args, stubs.InlinePool(), stubs.PBar()).triplet_scores
    ca, cb = codes_of(df['user'].tolist()), codes_of(df['label'].tolist())
    exp = float(adjusted_mutual_info_score(ca, cb))
    rec.nt(True, key=case)
    rec.cls('ami-cardinality-product>10^6')
    for x, y, s in out:
        if x != y and abs(float(s) - exp) > 1e-9:
            raise Violation(f'heuristic AMI: pair ({x}, {y}) with cardinalities {len(set(ca))} x {len(set(cb))} scored {float(s)!r}, '
                            f'adjusted_mutual_info_score gives {exp!r}', kind='C05/ami-highcard')


@st.composite
def real_pool_case(draw):
    """2-3 consecutive mini-batches with the same column names and different contents, ranked through ONE real pathos process pool
    (what the ranking task does: the pool is created once, its worker processes live across batches)."""
    ncols = draw(st.integers(2, 4))
    nb = draw(st.integers(2, 3))
    batches = []
    for _ in range(nb):
        nrows = draw(st.integers(30, 200))
        batches.append({'nrows': nrows, 'cols': [draw(column(nrows, i)) for i in range(ncols)]})
    return {'batches': batches, 'label_pos': draw(st.integers(0, ncols - 1)), 'pairwise': draw(st.booleans()),
            'heuristic': draw(st.sampled_from(['MI-numba-randomized', 'max-value-coverage', 'MI', 'MI-numba-3mr'])),
            'nodes': draw(st.integers(1, 2))}


def oracle_real_pool(case, rec):
    from pathos.multiprocessing import ProcessingPool
    h = case['heuristic']
    args = stubs.make_args(heuristic=h, target_ranking_only='False' if case['pairwise'] else 'True')
    stubs.reset_globals()
    pool = ProcessingPool(int(case['nodes']))
    rec.nt(True, key=case)
    rec.cls('real-pool:batches=%d' % len(case['batches']), 'real-pool:h=' + h)
    try:
        for bi, b in enumerate(case['batches']):
            cols = build_columns(b)
            names = [f'f{i}' for i in range(len(cols))]
            names[min(case['label_pos'], len(cols) - 1)] = 'label'
            df = pd.DataFrame(dict(zip(names, cols)))
            out = mixed_rank_graph(df, args, pool, stubs.PBar()).triplet_scores
            codes = {n: codes_of(c) for n, c in zip(names, cols)}
            for a, bb, sc in out:
                exp, t = expected_scores(h, codes[a], codes[bb], a == 'label', bb == 'label')
                if not any(nan_eq(float(sc), e, t) for e in exp):
                    raise Violation(f'heuristic {h}, batch {bi + 1} of {len(case["batches"])} through one process pool of '
                                    f'{case["nodes"]} worker(s): pair ({a}, {bb}) scored {float(sc)!r}, expected {exp} for the '
                                    f'columns of THIS batch (tol {t:.1e})', kind='C05/real-pool')
    finally:
        try:
            pool.close()
            pool.join()
            pool.clear()
        except Exception:  # noqa: BLE001
            pass


ORACLES = {'C05/real-pool': oracle_real_pool, 'C05/score': oracle, 'C05/alias': oracle, 'C05/huge-batch': oracle_huge, 'C05/ami-highcard': oracle_ami_highcard}


def run(ctx):
    ctx.extra['documented_heuristics'] = HEURISTICS
    max_rows = 300 if ctx.tier == 'quick' else 3000
    clauses = [
        Clause('C05/score', lambda: frame_case(max_rows=max_rows), oracle, quick=2400, thorough=120000, quick_shards=8),
        Clause('C05/alias', alias_case, oracle, quick=24, thorough=1800, quick_shards=4, thorough_shards=8),
        Clause('C05/huge-batch', huge_case, oracle_huge, quick=2, thorough=16, quick_shards=2, thorough_shards=8),
        Clause('C05/ami-highcard', ami_highcard_case, oracle_ami_highcard, quick=1, thorough=12, quick_shards=1, thorough_shards=6),
        Clause('C05/real-pool', real_pool_case, oracle_real_pool, quick=3, thorough=48, quick_shards=3, thorough_shards=12),
    ]
    drive(ctx, clauses)
    missing = [h for h in HEURISTICS if ctx.stats.classes.get('h=' + h, 0) == 0 and not ctx.violations]
    if missing:
        raise HarnessError(f'generator degenerate: heuristics never drawn: {missing}')
