"""C15 - frequency sketches err on one side only (count-min sketch, bounded exact counter).

Both clauses are *program cases*: a JSON-able list of operations interpreted against the implementation and a
Python model (collections.Counter), so a failing history is a plain replay file."""
from __future__ import annotations

import zlib
from collections import Counter

import numpy as np
from hypothesis import strategies as st

from vlib.harness import Clause, Inconclusive, Violation, drive

from outrank.algorithms.sketches.counting_cms import CountMinSketch
from outrank.algorithms.sketches.counting_counters_ordinary import PrimitiveConstrainedCounter

ID = 'C15'
RULE = ('Count-min: program = (depth 1..8, width in {1,2,3,7,64,2^15}, numpy seed k -> np.random.seed(k) right before the '
        'constructor draws hash_seeds) + 0..40 operations add(item, weight) / batch(items, weight) / query(item) over a '
        'per-case pool of <=14 items (python ints: small, negative, full int64 range, pairs congruent mod 2^32 and mod 2^61-1; '
        'strings: empty, ascii, unicode); weights are non-negative ints (0, 1, small, up to 2^31-1) clipped so that the total '
        'stays < 2^31. After every update every item seen so far is queried and every row sum is compared with the total; '
        'every query is bracketed by a matrix fingerprint (shape, dtype, crc32 of the buffer). Non-trivial = width < number of distinct items added and at least one '
        'update with weight >= 2. Bounded counter: program = (bound 0..12) + stream of <=60 items (ints and strings from a '
        'pool of <=16) fed one by one with add(); after every add all seen items are compared with the model. Non-trivial = '
        'more distinct values in the stream than the bound; a second counter clause uses bounds 100..30000 (around and beyond 256) with '
        'PRNG-built streams of bound-5..bound+200 distinct values. Distinct = digest of the case.')
ASSUMPTIONS = ['int32 count matrix: totals are kept below 2^31 (code-imposed domain)',
               'items outside the int64 range and non-integer weights are not generated (numba signature of _add)',
               'the sketch draws hash_seeds from the global numpy RNG; the oracle seeds it from the case (np.random.seed)']

WIDTHS = [1, 2, 3, 7, 64, 2 ** 15]
LIMIT = 2 ** 31 - 1          # largest admissible total weight
M61 = 2 ** 61 - 1

_TEXT = st.text(alphabet=st.characters(blacklist_categories=('Cs',)), max_size=8)
_INT_ITEMS = st.one_of(
    st.integers(-5, 5),
    st.integers(-2 ** 63, 2 ** 63 - 1),
    st.sampled_from([0, -1, -2, 2 ** 31, 2 ** 32 - 1, 2 ** 32, 5 + 2 ** 32, 5 - 2 ** 32, 5 + M61, M61, M61 - 1, -M61,
                     -2 ** 31, 2 ** 63 - 1, -2 ** 63]),
)
_LONG = ['https://news.example.org/' + 'x' * 240 + tail for tail in ('', 'a', 'b', '/a?b=1')] + ['y' * 256, 'y' * 257, 'y' * 300]
_STR_ITEMS = st.one_of(st.sampled_from(['', 'a', 'b', 'ab', 'ba', '0', '1', '-1', '5', 'é', '中', ' ', 'a\x00']), _TEXT,
                       st.sampled_from(_LONG))     # long keys sharing a 256-character prefix (URLs, paths)
_ITEM = st.one_of(_INT_ITEMS, _STR_ITEMS)


def _ukey(v):
    return (type(v).__name__, v)


_WEIGHTS = {
    'unit': st.one_of(st.just(1), st.integers(0, 3)),
    'small': st.one_of(st.just(1), st.integers(0, 3), st.integers(2, 1000)),
    'large': st.one_of(st.integers(0, 3), st.integers(2, 1000), st.integers(0, 2 ** 27),
                       st.sampled_from([2 ** 15, 2 ** 16, 2 ** 24])),
    'limit': st.one_of(st.integers(2, 1000), st.integers(0, LIMIT), st.sampled_from([2 ** 30, LIMIT])),
}
_LENGTHS = [2, 1, 0, 3, 4, 6, 8, 12, 16, 24, 32, 40]     # first entry = what Hypothesis shrinks to
_POOL_SIZES = [4, 1, 2, 3, 6, 8, 10, 14]


# ---- count-min sketch ------------------------------------------------------------------------------

@st.composite
def cms_case(draw):
    depth = draw(st.integers(1, 8))
    width = draw(st.sampled_from(WIDTHS))
    seed = draw(st.integers(0, 2 ** 32 - 1))
    kinds = draw(st.sampled_from(['int', 'str', 'mixed']))
    base = _INT_ITEMS if kinds == 'int' else _STR_ITEMS if kinds == 'str' else _ITEM
    ps = draw(st.sampled_from(_POOL_SIZES))
    pool = draw(st.lists(base, min_size=ps, max_size=ps, unique_by=_ukey))
    item = st.sampled_from(pool)
    n = draw(st.sampled_from(_LENGTHS))
    weight = _WEIGHTS[draw(st.sampled_from(['unit', 'small', 'small', 'large', 'large', 'limit']))]
    ops = []
    total = 0
    for _ in range(n):
        what = draw(st.sampled_from(['add', 'add', 'add', 'query', 'batch', 'add', 'add', 'add', 'query', 'batch', 'copy']))
        if what == 'copy':
            # the sketch object is snapshotted (deepcopy) or shipped through pickle and the history continues on the copy
            ops.append(['copy', draw(st.sampled_from(['deepcopy', 'pickle']))])
            continue
        if what == 'query':
            ops.append(['query', draw(st.one_of(item, item, base))])
            continue
        w = min(draw(weight), LIMIT - total)
        if what == 'add':
            ops.append(['add', draw(item), w])
            total += w
        else:
            items = draw(st.lists(item, min_size=0, max_size=5))
            if items:
                w = min(w, (LIMIT - total) // len(items))
            # the batch is any iterable of items: a list, a tuple, or a one-shot iterator / generator (a streaming reader)
            ops.append(['batch', items, w, draw(st.sampled_from(['list', 'list', 'tuple', 'iter', 'gen', 'ndarray']))])
            total += w * len(items)
    # the row seeds may be pinned right after construction (to make two sketches addable / a run reproducible)
    return {'depth': depth, 'width': width, 'seed': seed, 'ops': ops, 'pinned_seeds': draw(st.sampled_from([False, False, True]))}


def _fingerprint(M):
    M = np.asarray(M)
    return (M.shape, str(M.dtype), zlib.crc32(memoryview(np.ascontiguousarray(M)).cast('B')))


def _valid_item(x):
    return (isinstance(x, int) and not isinstance(x, bool) and -2 ** 63 <= x <= 2 ** 63 - 1) or isinstance(x, str)


def oracle_cms(case, rec):
    depth, width, seed, ops = int(case['depth']), int(case['width']), int(case['seed']), case['ops']
    # domain validation (replay files may be hand-written)
    tot = 0
    for op in ops:
        if op[0] == 'copy':
            continue
        items = [op[1]] if op[0] in ('add', 'query') else list(op[1])
        if not all(_valid_item(x) for x in items):
            raise Inconclusive()
        if op[0] != 'query':
            if not (isinstance(op[2], int) and op[2] >= 0):
                raise Inconclusive()
            tot += op[2] * len(items)
    if tot > LIMIT or not (1 <= depth <= 8) or width < 1:
        raise Inconclusive()

    np.random.seed(seed)
    sk = CountMinSketch(depth, width)
    if case.get('pinned_seeds'):
        sk.hash_seeds = np.array([(seed + 7919 * i) % (2 ** 31 - 1) for i in range(depth)], dtype=np.uint32)
        rec.cls('row-seeds-pinned-after-construction')
    true = Counter()
    seen = []          # insertion-ordered distinct items added (never iterate a set)
    total = 0
    weighted = False

    def check_query(x, where):
        q = int(sk.query(x))
        t = true.get(_ukey(x), 0)
        if q < t:
            raise Violation(f'{where}: query({x!r})={q} is below the true accumulated weight {t} '
                            f'(depth={depth}, width={width}, total={total})', kind='C15/cms-lower')
        if q > total:
            raise Violation(f'{where}: query({x!r})={q} exceeds the total weight added {total} '
                            f'(true weight {t}, depth={depth}, width={width})', kind='C15/cms-upper')

    def check_rows(where):
        M = np.asarray(sk.get_matrix())
        if M.shape != (depth, width):
            raise Violation(f'{where}: matrix shape {M.shape} != ({depth}, {width})', kind='C15/cms-rows')
        sums = M.sum(axis=1, dtype=np.int64).tolist()
        if any(s != total for s in sums):
            raise Violation(f'{where}: row sums {sums} differ from the total weight added {total}', kind='C15/cms-rows')

    check_rows('empty sketch')
    for k, op in enumerate(ops):
        where = f'after op #{k} {op!r}'
        if op[0] == 'copy':
            import copy
            import pickle
            sk = copy.deepcopy(sk) if op[1] == 'deepcopy' else pickle.loads(pickle.dumps(sk))
            rec.cls('sketch-copied:' + op[1])
            check_rows(where)
            for x in seen:
                check_query(x, where)
            continue
        if op[0] == 'query':
            before = _fingerprint(sk.get_matrix())
            check_query(op[1], where)
            if before != _fingerprint(sk.get_matrix()):
                raise Violation(f'{where}: query changed the count matrix', kind='C15/cms-query-pure')
            continue
        if op[0] == 'add':
            items = [op[1]]
            # the argument is a temporary built in the call expression (cms.add(field.strip()), cms.add(int(tok))): an equal value in
            # a fresh object that dies when the call returns
            if k % 2:
                sk.add((op[1] + 'z')[:-1] if isinstance(op[1], str) else int(str(op[1])), op[2])
            else:
                sk.add(op[1], op[2])
        else:
            items = list(op[1])
            how = op[3] if len(op) > 3 else 'list'
            if how == 'ndarray' and not (items and all(isinstance(x, int) for x in items)):
                how = 'list'          # a numpy batch is an int64 column (e.g. a frame column's .values); mixed / str batches stay lists
            arg = items if how == 'list' else tuple(items) if how == 'tuple' else iter(items) if how == 'iter' else \
                np.array(items, dtype=np.int64) if how == 'ndarray' else (x for x in items)
            sk.batch_add(arg, op[2])
            if how == 'ndarray':
                rec.cls('batch-from-int64-array')
            if how in ('iter', 'gen'):
                rec.cls('batch-from-one-shot-iterator')
        w = op[2]
        for x in items:
            if _ukey(x) not in true:
                seen.append(x)
            true[_ukey(x)] += w
            total += w
        if w >= 2 and items:
            weighted = True
        check_rows(where)
        before = _fingerprint(sk.get_matrix())
        for x in seen:
            check_query(x, where)
        if before != _fingerprint(sk.get_matrix()):
            raise Violation(f'{where}: querying the seen items changed the count matrix', kind='C15/cms-query-pure')
    rec.nt(width < len(seen) and weighted, key=case)
    rec.cls(f'width={width}', f'depth={depth}', 'collisions-forced' if width < len(seen) else 'collisions-not-forced')
    if seen:
        ts = sorted({type(x).__name__ for x in seen})
        rec.cls('items=' + '+'.join(ts))
    if total >= 2 ** 30:
        rec.cls('total>=2^30')


# ---- bounded exact counter ---------------------------------------------------------------------------

@st.composite
def counter_case(draw):
    bound = draw(st.integers(0, 12))
    ps = draw(st.sampled_from(_POOL_SIZES + [16]))
    pool = draw(st.lists(_ITEM, min_size=ps, max_size=ps, unique_by=_ukey))
    n = draw(st.sampled_from([3, 1, 2, 0, 5, 8, 13, 20, 30, 45, 60]))
    items = draw(st.lists(st.sampled_from(pool), min_size=n, max_size=n))
    # ints may arrive as numpy integer scalars (the cells of an int64 column's .values): equal to, and hashed like, the Python int
    return {'bound': bound, 'items': items, 'numpy_ints': draw(st.sampled_from([False, False, True]))}


def oracle_counter(case, rec):
    bound, items = int(case['bound']), case['items']
    if bound < 0 or not all(_valid_item(x) for x in items):
        raise Inconclusive()
    pc = PrimitiveConstrainedCounter(bound)
    true = Counter()
    seen = []
    as_np = bool(case.get('numpy_ints'))
    if as_np:
        rec.cls('ints-as-numpy-scalars')
    for k, x in enumerate(items):
        pc.add(np.int64(x) if as_np and isinstance(x, int) and -2 ** 63 <= x < 2 ** 63 and k % 2 == 0 else x)
        if _ukey(x) not in true:
            seen.append(x)
        true[_ukey(x)] += 1
        where = f'after add #{k} of {x!r} (bound {bound}, {len(seen)} distinct values seen)'
        tracked = len(pc.default_counter)
        if tracked > bound:
            raise Violation(f'{where}: counter tracks {tracked} distinct values, more than its bound', kind='C15/counter-size')
        exact = len(seen) < bound
        for yi, y in enumerate(seen):
            # look-ups by subscription and by .get (a Counter answers 0 for an untracked value and does not start tracking it)
            got = pc.default_counter[y] if (yi + k) % 2 else pc.default_counter.get(y, 0)
            t = true[_ukey(y)]
            if got > t:
                raise Violation(f'{where}: count({y!r})={got} over-counts the true {t}', kind='C15/counter-overcount')
            if exact and got != t:
                raise Violation(f'{where}: fewer than bound distinct values seen but count({y!r})={got} != true {t}',
                                kind='C15/counter-exact')
        extra = [y for y in list(pc.default_counter) if _ukey(int(y) if isinstance(y, np.integer) else y) not in true]
        if extra:
            raise Violation(f'{where}: counter holds values never added: {extra[:3]!r}', kind='C15/counter-overcount')
    rec.nt(len(seen) > bound, key=case)
    rec.cls(f'bound={bound}', 'stream-exceeds-bound' if len(seen) > bound else 'stream-within-bound')


@st.composite
def long_stream_case(draw):
    """Streams with more than 8192 distinct items and batches of 1024-3000 items (production-size use of one sketch)."""
    return {'depth': draw(st.integers(1, 8)), 'width': draw(st.sampled_from([2000, 4096, 32768, 1000, 32768])),
            'seed': draw(st.integers(0, 2 ** 32 - 1)), 'distinct': draw(st.integers(9000, 15000)),
            'kinds': draw(st.sampled_from(['int', 'str', 'mixed'])), 'phases': draw(st.integers(6, 10)),
            'batch': draw(st.sampled_from([1024, 1500, 3000])), 'delta': draw(st.integers(1, 3))}


def oracle_long_stream(case, rec):
    import numpy as np
    rng = np.random.Generator(np.random.PCG64(int(case['seed'])))
    np.random.seed(int(case['seed']) % (2 ** 32))
    sk = CountMinSketch(depth=int(case['depth']), width=int(case['width']))
    D = int(case['distinct'])

    def item(i):
        if case['kinds'] == 'int' or (case['kinds'] == 'mixed' and i % 2):
            return int(i * 7919 - 4_000_000)
        return f'campaign_{i}'
    true, total = Counter(), 0
    heavy = [item(i) for i in range(0, D, max(1, D // 20))]
    per_phase = D // int(case['phases'])
    for ph in range(int(case['phases'])):
        lo, hi = ph * per_phase, min(D, (ph + 1) * per_phase)
        fresh = [item(i) for i in range(lo, hi)]
        if ph % 2 == 0:
            for x in fresh + heavy:
                sk.add(x, 1)
                true[_ukey(x)] += 1
                total += 1
        else:
            b = int(case['batch'])
            stream = fresh + heavy * 3
            for a in range(0, len(stream), b):
                chunk = stream[a:a + b]
                sk.batch_add(chunk, int(case['delta']))
                for x in chunk:
                    true[_ukey(x)] += int(case['delta'])
                total += int(case['delta']) * len(chunk)
        probe = heavy + fresh[:60] + [item(int(i)) for i in rng.integers(0, hi, size=150)]
        where = f'after phase {ph + 1} ({hi} distinct items, total weight {total}, depth {case["depth"]}, width {case["width"]})'
        for x in probe:
            q = int(sk.query(x))
            t = true[_ukey(x)]
            if q < t:
                raise Violation(f'{where}: query({x!r}) = {q} is below the true accumulated weight {t}', kind='C15/cms-lower')
            if q > total:
                raise Violation(f'{where}: query({x!r}) = {q} exceeds the total weight {total}', kind='C15/cms-upper')
        sums = sk.get_matrix().sum(axis=1).tolist()
        if any(int(v) != total for v in sums):
            raise Violation(f'{where}: row sums {sums[:4]} differ from the total weight {total}', kind='C15/cms-rows')
    rec.nt(True, key=case)
    rec.cls('long-stream:' + case['kinds'])


@st.composite
def counter_big_case(draw):
    """Bounds around and beyond CPython's small-int cache (256) up to the production default, with streams that exceed them."""
    bound = draw(st.sampled_from([100, 255, 256, 257, 258, 300, 1000, 4096, 30000]))
    over = draw(st.sampled_from([0, 1, 2, 10, 200]))
    distinct = max(1, bound + over - draw(st.sampled_from([0, 0, 0, 5])))
    return {'bound': bound, 'distinct': distinct, 'repeat': draw(st.integers(1, 3)), 'seed': draw(st.integers(0, 2**32 - 1))}


def oracle_counter_big(case, rec):
    import numpy as np
    bound, distinct = int(case['bound']), int(case['distinct'])
    rng = np.random.Generator(np.random.PCG64(int(case['seed'])))
    order = np.concatenate([rng.permutation(distinct) for _ in range(int(case['repeat']))]).tolist()
    pc = PrimitiveConstrainedCounter(bound)
    true = Counter()
    for k, i in enumerate(order):
        x = f'value-{i}'
        pc.add(x)
        true[x] += 1
        tracked = len(pc.default_counter)
        if tracked > bound:
            raise Violation(f'after add #{k} (bound {bound}, {len(true)} distinct values seen): counter tracks {tracked} distinct values, '
                            f'more than its bound', kind='C15/counter-size')
        got = pc.default_counter.get(x, 0)
        if got > true[x]:
            raise Violation(f'after add #{k}: count({x!r})={got} over-counts the true {true[x]}', kind='C15/counter-overcount')
        if len(true) < bound and got != true[x]:
            raise Violation(f'after add #{k}: fewer than bound ({bound}) distinct values seen but count({x!r})={got} != true {true[x]}',
                            kind='C15/counter-exact')
    for y, got in pc.default_counter.items():
        if got > true.get(y, 0):
            raise Violation(f'final: count({y!r})={got} over-counts the true {true.get(y, 0)}', kind='C15/counter-overcount')
    rec.nt(distinct > bound, key=case)
    rec.cls('bound>256' if bound > 256 else 'bound<=256', 'big-stream-exceeds-bound' if distinct > bound else 'big-stream-within-bound')


ORACLES = {'C15/long-stream': oracle_long_stream, 'C15/bounded-counter-big': oracle_counter_big, 'C15/count-min': oracle_cms, 'C15/cms-lower': oracle_cms, 'C15/cms-upper': oracle_cms,
           'C15/cms-rows': oracle_cms, 'C15/cms-query-pure': oracle_cms,
           'C15/bounded-counter': oracle_counter, 'C15/counter-size': oracle_counter,
           'C15/counter-overcount': oracle_counter, 'C15/counter-exact': oracle_counter}


def _warm_up():
    """Compile CountMinSketch._add / cms_hash for int and str items once in the parent; forked shards inherit the code.
    An exception here is left to the first generated case to report (it will raise again there)."""
    try:
        np.random.seed(0)
        sk = CountMinSketch(2, 3)
        for x in (1, 'a'):
            sk.add(x, 1)
            sk.query(x)
    except Exception:  # noqa: BLE001
        pass


def run(ctx):
    _warm_up()
    clauses = [
        Clause('C15/count-min', cms_case, oracle_cms, quick=4000, thorough=120000, quick_shards=8, thorough_shards=16),
        Clause('C15/long-stream', long_stream_case, oracle_long_stream, quick=8, thorough=240, quick_shards=8, thorough_shards=16),
        Clause('C15/bounded-counter-big', counter_big_case, oracle_counter_big, quick=60, thorough=2000, quick_shards=4),
        Clause('C15/bounded-counter', counter_case, oracle_counter, quick=2400, thorough=80000, quick_shards=4,
               thorough_shards=16),
    ]
    drive(ctx, clauses)
