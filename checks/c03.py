"""C03 - cardinality correction subtracts the displaced-copy noise floor."""
from __future__ import annotations

import math

import numpy as np
from hypothesis import strategies as st

from vlib import gens, refmodels as rm
from vlib.harness import Clause, Stats, Violation, drive, run_sharded

from outrank.algorithms import importance_estimator as ie
from outrank.algorithms.feature_ranking import ranking_mi_numba as cut

ID = 'C03'
RULE = ('Identity clause: exhaustive ordered pairs of set partitions of [n] (n<=6 quick, n<=7 thorough; canonical and sparse '
        'codes) plus Hypothesis pairs as in C01, correction on, compared with H(Y*|X)-H(Y|X) computed from the literal '
        'displaced-copy definition; also through numba_mi(..., "MI-numba-randomized"). Non-trivial: X has a stratum of >=2 '
        'rows, Y non-constant and the displaced copy differs from Y on such a stratum. Corollaries: constant / all-distinct '
        'feature vs arbitrary targets, self pairs. Ranking corollary: planted family (seed k, n in [4000,20000], binary '
        'target, signal = target with 15% flips, noise cardinalities from {2,3,10,100,sqrt n,n/10,n/2,n}); non-trivial = '
        'seeds on which the uncorrected score ranks some noise feature above the signal (measured, not asserted).')
ASSUMPTIONS = ['reference = literal transcription of the statement (vlib/refmodels.displaced / corrected_ref)',
               'ranking corollary is a sampled statistical claim (signal ~0.27 nats vs noise ~1e-2)']


def mi(Y, X, c=True):
    return float(cut.mutual_info_estimator_numba(
        np.ascontiguousarray(Y, dtype=np.int32), np.ascontiguousarray(X, dtype=np.int32), np.float32(1.0), bool(c)))


def _nt_identity(Yl, Xl):
    if len(set(Yl)) < 2:
        return False
    Ys = rm.displaced(Yl, Xl)
    from collections import Counter
    cx = Counter(Xl)
    return any(cx[x] >= 2 and Ys[i] != Yl[i] for i, x in enumerate(Xl))


def oracle_identity(case, rec):
    if 'lagged' in case:
        _, Ya, Xa = gens.build_lagged(case['lagged'])       # overlapping int32 views of one buffer
        Y, X = Ya.astype(np.int64), Xa.astype(np.int64)
        rec.cls('views:' + case['lagged'].get('layout', 'windows'))
    else:
        Y, X = gens.materialize_pair(case)
        Ya, Xa = np.ascontiguousarray(Y, dtype=np.int32).copy(), np.ascontiguousarray(X, dtype=np.int32).copy()
    Yl, Xl = Y.tolist(), X.tolist()
    t = rm.tol(Y, X)
    ref = rm.corrected_ref(Yl, Xl)
    def call():
        try:
            return float(cut.mutual_info_estimator_numba(Ya, Xa, np.float32(1.0), True))
        except Exception as e:  # noqa: BLE001
            raise Violation(f'estimator raised {type(e).__name__}: {str(e)[:300]} for int32 vectors of length {len(Xa)} '
                            f'(contiguous: {Ya.flags.c_contiguous}, {Xa.flags.c_contiguous})', kind='C03/exception')
    got = call()
    if len(Xl) <= 20000:
        again = call()
        if abs(again - got) > t:
            raise Violation(f'second corrected call on the same array objects gives {again!r}, the first gave {got!r}', kind='C03/identity')
    rec.nt(_nt_identity(Yl, Xl), key=[Yl, Xl] if len(Xl) <= 64 else case)
    if 'gen' in case:
        rec.cls('fam=' + case['gen']['fam'])
    if not math.isfinite(got) or abs(got - ref) > t:
        raise Violation(f'corrected score {got!r} != H(Y*|X)-H(Y|X) = {ref!r} (tol {t:.2e}), n={len(Xl)}')
    if case.get('both') and 'lagged' not in case:
        # the kernel loops over the strata of its second argument: the swapped call exercises the other vector as strata source
        ref2 = rm.corrected_ref(Xl, Yl)
        try:
            got2 = float(cut.mutual_info_estimator_numba(Xa, Ya, np.float32(1.0), True))
        except Exception as e:  # noqa: BLE001
            raise Violation(f'estimator raised {type(e).__name__}: {str(e)[:300]} (swapped arguments)', kind='C03/exception')
        if not math.isfinite(got2) or abs(got2 - ref2) > t:
            raise Violation(f'corrected score with swapped arguments {got2!r} != {ref2!r} (tol {t:.2e}), n={len(Xl)}')
    # heuristic name -> correction flag, in a generated order of calls within one process (a history): the flag must follow
    # the name passed to THIS call, whatever earlier calls used
    if len(Xl) <= 5000:
        names = ['MI-numba-3mr', 'MI-numba-randomized'] if (len(Xl) + sum(Xl[:3])) % 2 else ['MI-numba-randomized', 'MI-numba-3mr']
        plain = rm.mi_ref(Yl, Xl)
        for nm in names + names[:1]:
            via = float(ie.numba_mi(np.asarray(Y), np.asarray(X), nm, 1.0))
            want = ref if nm == 'MI-numba-randomized' else plain
            if abs(via - want) > t:
                raise Violation(f'numba_mi(..., {nm!r}) = {via!r}, expected {want!r} ({"corrected" if nm == "MI-numba-randomized" else "plain"} score) '
                                f'after the call sequence {names + names[:1]}', kind='C03/heuristic-flag')
        # the ranking layer hands the feature over as a single-column 2-d block when a reference model is configured: same vector
        col = float(ie.numba_mi(np.asarray(Y).reshape(-1, 1), np.asarray(X), 'MI-numba-randomized', 1.0))
        rec.cls('feature-as-(n,1)-block')
        if abs(col - ref) > t:
            raise Violation(f'numba_mi with the feature given as an (n, 1) block scores {col!r}, as a vector {ref!r} (n={len(Xl)})',
                            kind='C03/heuristic-flag')


def oracle_corollaries(case, rec):
    Y, X = gens.materialize_pair(case)
    n = len(X)
    t = rm.tol(Y, X)
    hx = rm.entropy(X)
    rec.nt(len(set(X.tolist())) > 1 and n >= 3, key=['cor', X.tolist()] if n <= 64 else case)
    const = np.full(n, int(case.get('cval', 0)), dtype=np.int64)
    if not np.array_equal(const, X):
        s = mi(const, X, True)
        if abs(s) > t:
            raise Violation(f'constant feature scores {s!r} against target', kind='C03/constant-feature')
    rng = np.random.Generator(np.random.PCG64(int(case.get('pk', 0))))
    ident = rng.permutation(n).astype(np.int64) + int(case.get('off', 0))
    if not np.array_equal(ident, X):
        s = mi(ident, X, True)
        if abs(s) > t + 2e-6 * math.log(max(n, 2)):
            raise Violation(f'all-distinct identifier feature scores {s!r} against target (n={n})', kind='C03/identifier-feature')
    s = mi(X, X, True)
    if abs(s - hx) > t:
        raise Violation(f'self pair scores {s!r}, H(X)={hx!r}', kind='C03/self')


@st.composite
def corollary_case(draw):
    case = dict(draw(st.one_of(gens.small_pair(), gens.family_pair(sizes=((2, 8), (9, 64), (65, 2000))))))
    case['cval'] = draw(st.integers(0, 50))
    case['pk'] = draw(st.integers(0, 2**32 - 1))
    case['off'] = draw(st.sampled_from([0, 0, 1, 1000]))
    return case


CARDS = ['2', '3', '10', '100', 'sqrt', 'n/10', 'n/2', 'n']


def _card(c, n):
    return {'2': 2, '3': 3, '10': 10, '100': 100, 'sqrt': int(math.isqrt(n)), 'n/10': n // 10, 'n/2': n // 2, 'n': n}[c]


@st.composite
def planted_case(draw):
    return {'k': draw(st.integers(0, 2**32 - 1)), 'n': draw(st.integers(4000, 20000)),
            'cards': draw(st.lists(st.sampled_from(CARDS), min_size=2, max_size=5, unique=True))}


def oracle_ranking(case, rec):
    rng = np.random.Generator(np.random.PCG64(int(case['k'])))
    n = int(case['n'])
    target = rng.integers(0, 2, size=n)
    flips = rng.random(n) < 0.15
    signal = np.where(flips, 1 - target, target)
    s_sig = mi(signal, target, True)
    p_sig = mi(signal, target, False)
    worst, worst_c, plain_misrank = -math.inf, None, False
    for c in case['cards']:
        k = max(2, _card(c, n))
        noise = rng.integers(0, k, size=n) if c != 'n' else rng.permutation(n)
        s = mi(noise, target, True)
        if mi(noise, target, False) >= p_sig:
            plain_misrank = True
        if s > worst:
            worst, worst_c = s, c
    rec.nt(plain_misrank, key=case)
    rec.cls('plain-would-misrank' if plain_misrank else 'plain-ranks-correctly')
    if not (s_sig > worst):
        raise Violation(f'planted signal scores {s_sig!r} but independent noise of cardinality {worst_c} scores {worst!r} '
                        f'(n={n}, seed={case["k"]})')


ORACLES = {'C03/near-copy': oracle_identity, 'C03/long-tail': oracle_identity, 'C03/id-pair': oracle_identity, 'C03/many-strata': oracle_identity, 'C03/exception': oracle_identity, 'C03/high-card': oracle_identity, 'C03/views': oracle_identity, 'C03/wide': oracle_identity, 'C03/identity': oracle_identity, 'C03/exhaustive': oracle_identity, 'C03/heuristic-flag': oracle_identity,
           'C03/corollaries': oracle_corollaries, 'C03/constant-feature': oracle_corollaries,
           'C03/identifier-feature': oracle_corollaries, 'C03/self': oracle_corollaries, 'C03/ranking': oracle_ranking}


def _enumerate_shard(args):
    n, shard, nshards, seed = args
    parts = gens.rgs(n)
    arrs = [np.asarray(p, dtype=np.int32) for p in parts]
    rng = np.random.Generator(np.random.PCG64(seed * 977 + n))
    sparse = rng.choice(gens.MAX_CODE, size=n, replace=False)
    arrs_sparse = [sparse[np.asarray(p)].astype(np.int32) for p in parts]
    ents = [rm.entropy(p) for p in parts]
    evals = nontriv = 0
    fail = sample = None
    f32 = np.float32(1.0)
    for i in range(shard, len(parts), nshards):
        Yl = list(parts[i])
        for j in range(len(parts)):
            Xl = list(parts[j])
            ref = rm.corrected_ref(Yl, Xl)
            t = 2e-5 + 2e-6 * (ents[i] + ents[j])
            g1 = float(cut.mutual_info_estimator_numba(arrs[i], arrs[j], f32, True))
            evals += 1
            bad = None
            if not (abs(g1 - ref) <= t):
                bad = {'Y': Yl, 'X': Xl}
            if i != j:  # sparse recoding of an identical pair with one table keeps identity; fine either way
                g2 = float(cut.mutual_info_estimator_numba(arrs_sparse[i], arrs_sparse[j], f32, True))
                evals += 1
                if bad is None and not (abs(g2 - ref) <= t):
                    bad = {'Y': arrs_sparse[i].tolist(), 'X': arrs_sparse[j].tolist()}
            if _nt_identity(Yl, Xl):
                nontriv += 1
                if sample is None and i > len(parts) // 2:
                    sample = {'Y': Yl, 'X': Xl, 'score': g1, 'reference': ref}
            if bad is not None and fail is None:
                fail = bad
        if fail is not None:
            break
    return evals, nontriv, fail, sample


def run(ctx):
    max_n = 6 if ctx.tier == 'quick' else 7
    jobs = []
    for n in range(1, max_n + 1):
        nsh = 1 if n <= 5 else 16 if n == 6 else 64
        jobs += [(n, s, nsh, ctx.seed) for s in range(nsh)]
    results = run_sharded(lambda i: _enumerate_shard(jobs[i]), len(jobs))
    enum_evals = enum_nt = 0
    fails = []
    for evals, nontriv, fail, sample in results:
        enum_evals += evals
        enum_nt += nontriv
        if sample is not None and len(ctx.stats.samples) < 3:
            ctx.stats.samples.append({'kind': 'C03/exhaustive', 'case': sample})
        if fail is not None:
            fails.append(fail)
    ctx.stats.evaluations += enum_evals
    ctx.stats.nontrivial_count_only += enum_nt
    ctx.stats.per_kind['C03/exhaustive'] = {'evaluations': enum_evals, 'nontrivial': enum_nt}
    ctx.extra['exhaustive_scope'] = 'all ordered pairs of set partitions of [n], n<=%d, correction on: %d evaluations' % (max_n, enum_evals)
    ctx.extra['exhaustive_subscope_complete'] = not fails
    if fails:
        fails.sort(key=lambda c: (len(c['X']), c['X'], c['Y']))
        res = ctx.run_oracle('C03/exhaustive', oracle_identity, fails[0], Stats())
        ctx.report('C03/exhaustive', fails[0], res[1] if res else 'enumeration mismatch (not reproduced on re-run)')

    pair = lambda: st.one_of(gens.small_pair(), gens.family_pair(sizes=((2, 8), (9, 64), (65, 2000))))  # noqa: E731
    clauses = [
        Clause('C03/identity', pair, oracle_identity, quick=1500, thorough=60000, quick_shards=4),
        Clause('C03/corollaries', corollary_case, oracle_corollaries, quick=600, thorough=20000, quick_shards=3),
        Clause('C03/ranking', planted_case, oracle_ranking, quick=48, thorough=3000, quick_shards=6),
        Clause('C03/high-card', lambda: gens.highcard_pair(), oracle_identity, quick=24, thorough=600, quick_shards=8),
        Clause('C03/views', lambda: gens.lagged_pair(), oracle_identity, quick=200, thorough=10000, quick_shards=2),
        Clause('C03/near-copy', lambda: gens.nearcopy_pair(), oracle_identity, quick=12, thorough=600, quick_shards=4),
        Clause('C03/long-tail', lambda: gens.longtail_pair(), oracle_identity, quick=1, thorough=8, quick_shards=1, thorough_shards=8),
        Clause('C03/id-pair', lambda: gens.idpair_pair(), oracle_identity, quick=1, thorough=12, quick_shards=1, thorough_shards=12),
        Clause('C03/many-strata', lambda: gens.manystrata_pair(), oracle_identity, quick=2, thorough=32, quick_shards=2, thorough_shards=16),
        Clause('C03/wide', lambda: gens.wide_pair(), oracle_identity, quick=2, thorough=32, quick_shards=2, thorough_shards=16),
    ]
    drive(ctx, clauses)
