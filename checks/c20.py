"""C20 - derived synthetic structure (correlation, duplicates, combinations, labels, noise, down-sampling) is as declared."""
from __future__ import annotations

import functools
import math
import traceback
from fractions import Fraction

import numpy as np
from hypothesis import strategies as st

from vlib.harness import Clause, Inconclusive, Violation, drive

from outrank.algorithms.synthetic_data_generators.cc_generator import CategoricalClassification

ID = 'C20'
RULE = ('Data sets are produced by generate_data itself from a small spec (n_features 1-6, n_samples, cardinality 1-8, seed, '
        'optionally a structure giving every column its own disjoint value list). Correlation: n 3-400, r from '
        '{0, +-1e-9, +-0.999, 0.999999, ...} or any float in (-0.999, 0.999), selection as int / list / ndarray with repeated '
        'indices. Duplicates / combinations (linear, nonlinear, _xor/_and/_or, a user function) likewise. dataset_info: '
        'programs of 1-4 mixed operations on the growing array. Labels: 2-6 classes, distribution as default / float (2 classes) / '
        'list / ndarray built from integer weights over W in {2,4,8,16,3,5,7,10,12,100}, decision function = user-supplied '
        'tie-free (row sum * n + permutation) or the built-in linear / nonlinear. Noise: class counts drawn explicitly '
        '(class 0 >= 1 row, other classes >= 2 rows), p from {0, .2, .5, .999, 1, j/n, j/n +- 1e-9, any float}; missing '
        'markers -1, -999, 2^31-1 (int32 data) and -inf (default) / nan (float data). Down-sampling: class counts 1-25, '
        'n in {None, 1..min count, min count + 1}, seed, reshuffle, optional unique row-id column. '
        'Non-trivial: correlation - a non-constant source and 0.05 < |r| < 0.95; labels - list/ndarray distribution with >= 3 '
        'classes and at least one tie-free cut; noise - floor(p*n) >= 1; down-sampling - n given and rows of different classes '
        'distinguishable; duplicates/combinations - a non-constant source; info - program with >= 2 operations. '
        'Distinct = digest of the case. np.random.seed(value from the case) precedes every call that uses the global RNG.')
ASSUMPTIONS = [
    'Pearson correlation needs n >= 3 (for n = 2 every correlation is +-1); constant sources and |r| = 1 are outside the statement',
    'tie-free cut: the order statistics s[j-1] < s[j] < s[j+1] around j = floor((n-1)q) are distinct (relative gap > 1e-9); then #(label < c) must be '
    'j+1; when (n-1)q is an integer and q is not a dyadic rational, float rounding may legitimately give j as well',
    'class distributions satisfy sum(p) <= 1.0 in float arithmetic (the code rejects anything larger) and len(p) == n_classes',
    'floor(p*n) is evaluated in float arithmetic (math.floor(p * n))',
    'categorical noise: labels are 0..m-1, all present, every class except class 0 has >= 2 rows (a one-row class makes '
    'generate_noise raise; observed, outside the statement, not asserted)',
    'missing marker is representable in the array dtype and does not occur in the data',
    'n > min class count is required to raise ValueError; n >= 1 otherwise (sklearn rejects 0)',
    'k-means (cluster) labels: only shape and label range are checked',
]

CC = CategoricalClassification
R_SPECIAL = [0.0, 1e-9, -1e-9, 1e-3, 0.05, -0.05, 0.3, -0.3, 0.5, -0.5, 0.8, 0.95, -0.95, 0.999, -0.999, 0.999999, -0.999999]
WS = [2, 4, 8, 16, 3, 5, 7, 10, 12, 100, 512, 1000]
MARKERS_INT = {'neg1': -1, 'neg999': -999, 'intmax': 2**31 - 1}


def cut(kind, fn, *a, **k):
    """Call into the code under test; an exception on a generated (in-domain) input is a violation <kind>/exception."""
    try:
        return fn(*a, **k)
    except Exception as e:  # noqa: BLE001
        tb = ''.join(traceback.format_exception(type(e), e, e.__traceback__)[-4:])
        raise Violation(f'code under test raised {type(e).__name__}: {e}\n{tb}', kind=kind + '/exception') from e


# ---- data sets -----------------------------------------------------------------------------------

CARDS = [1, 2, 2, 3, 3, 4, 5, 6, 8]


@st.composite
def dataset_spec(draw, min_n=1, max_n=120, n=None, max_f=6, min_card=1, nonconst=False, long_ok=True):
    """nonconst: ensure_rep with n_samples > cardinality >= 2, so that every column takes >= 2 values."""
    card = draw(st.sampled_from([c for c in CARDS if c >= (max(2, min_card) if nonconst else min_card)
                                 and (n is None or not nonconst or c < max(n, 3))]))
    if nonconst:
        min_n = max(min_n, card + 1)
    ns = n if n is not None else draw(st.one_of(st.integers(min_n, min(max_n, min_n + 12)), st.integers(min_n, max_n)))
    if long_ok and n is None and max_n >= 100 and draw(st.integers(0, 39)) == 0:
        ns = draw(st.integers(33_000, 50_000))        # now and then a data set longer than any internal row block
    return {'nf': draw(st.integers(1, max_f)), 'ns': ns, 'card': card, 'seed': draw(st.integers(0, 2**32 - 1)),
            'own_domains': draw(st.booleans()), 'rep': nonconst,
            # value range [low, low + card - 1] of the default (non-structure) columns, as in C19: offset / id-like codes
            'low': draw(st.sampled_from([0, 0, 0, 7, 1000, -1000, 10**6, 5 * 10**6, 10**8]))}      # sums of a few columns stay inside int32


def build_dataset(ds, kind, id_col=False, as_float=False, cc=None):
    structure = None
    if ds['own_domains']:
        structure = [[j, list(range(100 * (j + 1), 100 * (j + 1) + ds['card']))] for j in range(ds['nf'])]
    X = cut(kind, (cc or CC()).generate_data, n_features=ds['nf'], n_samples=ds['ns'], cardinality=ds['card'],
            structure=structure, ensure_rep=bool(ds.get('rep')), seed=ds['seed'],
            **({'low': int(ds['low']), 'high': int(ds['low']) + 1000} if ds.get('low') else {}))
    if X.shape != (ds['ns'], ds['nf']):
        raise Violation(f'generate_data returned shape {X.shape}', kind=kind)
    if id_col:
        X = np.column_stack((np.arange(ds['ns'], dtype=np.int32), X)).astype(np.int32)
    if as_float:
        X = X.astype(np.float64)
    return np.ascontiguousarray(X)


@st.composite
def selection(draw, width, min_len=1, max_len=4, allow_int=True):
    t = draw(st.sampled_from(['int', 'list', 'array'] if allow_int and min_len <= 1 else ['list', 'array']))
    # one selection in four may address columns from the end (-1 = last column): an ordinary numpy index selection
    one = st.integers(-width, width - 1) if draw(st.integers(0, 3)) == 0 else st.integers(0, width - 1)
    if t == 'int':
        return {'t': 'int', 'idx': [draw(one)]}
    return {'t': t, 'idx': draw(st.lists(one, min_size=min_len, max_size=max_len))}


def sel_arg(sel):
    if sel['t'] == 'int':
        return sel['idx'][0]
    return list(sel['idx']) if sel['t'] == 'list' else np.array(sel['idx'])


def labels_from_counts(counts, seed):
    y = np.repeat(np.arange(len(counts)), counts)
    return y[np.random.Generator(np.random.PCG64(seed)).permutation(len(y))]


def pearson(a, b):
    a = np.asarray(a, dtype=np.float64)
    b = np.asarray(b, dtype=np.float64)
    a = a - a.mean()
    b = b - b.mean()
    den = math.sqrt(float(a @ a) * float(b @ b))
    return float(a @ b) / den if den > 0 and math.isfinite(den) else float('nan')


def check_prefix(Z, X0, X, added, what, kind):
    n, d = X0.shape
    if not isinstance(Z, np.ndarray) or Z.shape != (n, d + added):
        raise Violation(f'{what}: result shape {getattr(Z, "shape", None)}, expected ({n}, {d + added})', kind=kind)
    if not np.array_equal(X, X0):
        raise Violation(f'{what}: the input array was modified', kind=kind)
    if not np.array_equal(Z[:, :d], X0):
        raise Violation(f'{what}: the first {d} columns of the result are not the input columns', kind=kind)


# ---- correlation ---------------------------------------------------------------------------------

@st.composite
def corr_case(draw):
    ds = draw(dataset_spec(min_n=3, max_n=400, nonconst=draw(st.sampled_from([True, True, False])), long_ok=False))   # generate_correlated is quadratic in the rows
    r = draw(st.one_of(st.sampled_from(R_SPECIAL), st.floats(-0.999, 0.999, allow_nan=False),
                       st.builds(lambda a, sgn: a * sgn, st.floats(0.05, 0.95), st.sampled_from([1.0, -1.0]))))
    if draw(st.integers(0, 29)) == 0:
        ds['ns'] = draw(st.integers(2049, 4500))      # more rows than any internal processing block (the generator is quadratic in the rows)
    if draw(st.integers(0, 7)) == 0:
        # a short, wide data set with (nearly) every column selected at once: as many sources as rows or more
        ds = draw(dataset_spec(min_n=4, max_n=12, max_f=12, nonconst=True, long_ok=False))
        ds['nf'] = draw(st.integers(max(2, ds['ns'] - 2), 12))
        idx = draw(st.permutations(list(range(ds['nf']))))
        return {'ds': ds, 'sel': {'t': draw(st.sampled_from(['list', 'array'])), 'idx': list(idx)}, 'r': r, 'np_seed': draw(st.integers(0, 2**32 - 1))}
    return {'ds': ds, 'sel': draw(selection(ds['nf'])), 'r': r, 'np_seed': draw(st.integers(0, 2**32 - 1))}


def oracle_correlation(case, rec):
    kind = 'C20/correlation'
    X = build_dataset(case['ds'], kind)
    X0 = X.copy()
    r, idx = case['r'], case['sel']['idx']
    cc = CC()
    np.random.seed(case['np_seed'])
    Z = cut(kind, cc.generate_correlated, X, sel_arg(case['sel']), r=r)
    check_prefix(Z, X0, X, len(idx), 'generate_correlated', kind)
    d = X0.shape[1]
    nonconst = 0
    for j, src in enumerate(idx):
        s = X0[:, src]
        if len(set(s.tolist())) < 2:
            rec.cls('constant-source')
            continue
        nonconst += 1
        c = pearson(s, Z[:, d + j])
        if not math.isfinite(c) or abs(c - r) > 1e-6:
            raise Violation(f'Pearson(source column {src}, new column {d + j}) = {c!r}, requested r = {r!r} '
                            f'(n={len(s)}, source values {sorted(set(s.tolist()))[:8]})')
    rec.nt(nonconst > 0 and 0.05 < abs(r) < 0.95, key=case)
    rec.cls('sel=' + case['sel']['t'], 'r<0' if r < 0 else 'r==0' if r == 0 else 'r>0',
            '|r|>=0.95' if abs(r) >= 0.95 else '|r|<=0.05' if abs(r) <= 0.05 else '|r| mid')
    if len(set(idx)) < len(idx):
        rec.cls('repeated-index')


# ---- duplicates / combinations -------------------------------------------------------------------

@st.composite
def dup_case(draw):
    ds = draw(dataset_spec(min_n=1, max_n=120, nonconst=draw(st.booleans())))
    return {'ds': ds, 'sel': draw(selection(ds['nf']))}


def oracle_duplicates(case, rec):
    kind = 'C20/duplicates'
    X = build_dataset(case['ds'], kind)
    X0 = X.copy()
    idx = case['sel']['idx']
    Z = cut(kind, CC().generate_duplicates, X, sel_arg(case['sel']))
    check_prefix(Z, X0, X, len(idx), 'generate_duplicates', kind)
    d = X0.shape[1]
    for j, src in enumerate(idx):
        if not np.array_equal(Z[:, d + j], X0[:, src]):
            raise Violation(f'appended column {d + j} is not a copy of source column {src}')
    rec.nt(any(len(set(X0[:, s].tolist())) > 1 for s in idx), key=case)
    rec.cls('sel=' + case['sel']['t'], *(['negative-index'] if min(idx) < 0 else []))


def user_mix(x):
    return 3 * x[:, 0] - x[:, -1]


COMB_FNS = ['linear', 'nonlinear', 'xor', 'and', 'or', 'user']


@st.composite
def comb_case(draw):
    ds = draw(dataset_spec(min_n=1, max_n=120, nonconst=draw(st.booleans())))
    fn = draw(st.sampled_from(COMB_FNS))
    sel = draw(selection(ds['nf'], min_len=2 if fn in ('xor', 'and', 'or') else 1, allow_int=False))
    return {'ds': ds, 'sel': sel, 'fn': fn}


def expected_combination(S, fn):
    """S: selected columns (n x m) as Python ints -> expected column, tolerance."""
    rows = [[int(v) for v in row] for row in S.tolist()]
    if fn == 'linear':
        return [sum(r) for r in rows], 0.0
    if fn == 'nonlinear':
        return [math.sin(sum(r)) for r in rows], 1e-12
    if fn == 'user':
        return [3 * r[0] - r[-1] for r in rows], 0.0
    op = {'xor': lambda a, b: a ^ b, 'and': lambda a, b: a & b, 'or': lambda a, b: a | b}[fn]
    return [functools.reduce(op, r) for r in rows], 0.0


def oracle_combinations(case, rec):
    kind = 'C20/combinations'
    X = build_dataset(case['ds'], kind)
    X0 = X.copy()
    idx, fn = case['sel']['idx'], case['fn']
    cc = CC()
    if fn in ('linear', 'nonlinear'):
        Z = cut(kind, cc.generate_combinations, X, sel_arg(case['sel']), combination_type=fn)
    else:
        f = {'xor': cc._xor, 'and': cc._and, 'or': cc._or, 'user': user_mix}[fn]
        Z = cut(kind, cc.generate_combinations, X, sel_arg(case['sel']), combination_function=f)
    check_prefix(Z, X0, X, 1, 'generate_combinations', kind)
    want, tol = expected_combination(X0[:, idx], fn)
    got = Z[:, -1].tolist()
    for i, (g, w) in enumerate(zip(got, want)):
        if not (abs(g - w) <= tol):
            raise Violation(f'row {i}: {fn} combination of columns {idx} (values {X0[i, idx].tolist()}) is {g!r}, expected {w!r}')
    rec.nt(any(len(set(X0[:, s].tolist())) > 1 for s in idx) and len(idx) >= 2, key=case)
    rec.cls('fn=' + fn)


# ---- dataset_info --------------------------------------------------------------------------------

def info_case(first):
    @st.composite
    def build(draw):
        ds = draw(dataset_spec(min_n=4, max_n=30, nonconst=True))
        width = ds['nf']
        prog = []
        nops = draw(st.integers(1, 4))
        for i in range(nops):
            op = first if i == 0 else draw(st.sampled_from(['corr', 'dup', 'comb']))
            if op == 'comb':
                step = {'op': op, 'sel': draw(selection(width, allow_int=False)), 'fn': draw(st.sampled_from(['linear', 'nonlinear']))}
                width += 1
            else:
                step = {'op': op, 'sel': draw(selection(width))}
                if op == 'corr':
                    step['r'] = draw(st.sampled_from([0.0, 0.5, -0.7, 0.9]))
                width += len(step['sel']['idx'])
            prog.append(step)
        return {'ds': ds, 'prog': prog, 'np_seed': draw(st.integers(0, 2**32 - 1))}
    return build


def _as_index_list(v):
    return [int(x) for x in np.atleast_1d(np.asarray(v)).ravel().tolist()]


def make_info_oracle(which):
    kind = 'C20/info-' + which
    opname = {'correlations': 'corr', 'duplicates': 'dup', 'combinations': 'comb'}[which]
    field = {'correlations': 'correlated_indices', 'duplicates': 'duplicate_indices', 'combinations': 'combination_ix'}[which]

    def oracle(case, rec):
        X = build_dataset(case['ds'], kind)
        cc = CC()
        np.random.seed(case['np_seed'])
        expected = []
        for step in case['prog']:
            w = X.shape[1]
            if step['op'] == 'corr':
                src = X[:, step['sel']['idx']]
                if not np.all(np.isfinite(src)) or np.any(np.ptp(src, axis=0) == 0):
                    rec.cls('excluded:constant-source-in-program')
                    raise Inconclusive()  # constant source -> non-finite column -> outside the statement
                X = cut(kind, cc.generate_correlated, X, sel_arg(step['sel']), r=step['r'])
            elif step['op'] == 'dup':
                X = cut(kind, cc.generate_duplicates, X, sel_arg(step['sel']))
            else:
                X = cut(kind, cc.generate_combinations, X, sel_arg(step['sel']), combination_type=step['fn'])
            if step['op'] == opname:
                expected.append(list(range(w, X.shape[1])))
        rec.nt(len(case['prog']) >= 2, key=case)
        rec.cls('ops=%d' % len(case['prog']))
        records = cc.dataset_info[which]
        if len(records) != len(expected):
            raise Violation(f'dataset_info[{which!r}] has {len(records)} records after {len(expected)} such operations')
        for i, (recd, want) in enumerate(zip(records, expected)):
            got = _as_index_list(recd[field])
            if got != want:
                raise Violation(f'dataset_info[{which!r}][{i}][{field!r}] = {got}, but the operation appended columns {want} '
                                f'(feature_indices={_as_index_list(recd["feature_indices"])})')
    return oracle


oracle_info_corr = make_info_oracle('correlations')
oracle_info_dup = make_info_oracle('duplicates')
oracle_info_comb = make_info_oracle('combinations')


# ---- labels --------------------------------------------------------------------------------------

def label_case(ptypes, min_classes=2):
    @st.composite
    def build(draw):
        # mostly few classes; one case in three asks for many (up to 64: evenly spaced cut points accumulate rounding)
        tier = draw(st.integers(0, 5))
        m = draw(st.integers(min_classes, 6)) if tier >= 2 else draw(st.sampled_from(range(7, 65))) if tier == 1 else \
            draw(st.sampled_from(range(65, 301)))      # "all class counts": also more classes than a signed byte can number
        ptype = draw(st.sampled_from([t for t in ptypes if t != 'float' or m == 2]))
        case = {'ds': draw(dataset_spec(min_n=2, max_n=300, min_card=2)), 'm': m, 'ptype': ptype,
                # with many classes the built-in relations (few distinct decision values) tie at nearly every cut and nothing would
                # be checked: many-class cases use the tie-free decision functions
                'dec': draw(st.sampled_from(['tiefree', 'tiefree', 'tiefree-neg', 'tiefree-rank', 'linear', 'nonlinear'] if m <= 6
                                            else ['tiefree', 'tiefree-neg', 'tiefree-rank'])),
                'k': draw(st.sampled_from([2, 1, 0.5, 3])), 'perm_seed': draw(st.integers(0, 2**32 - 1))}
        if ptype != 'default':
            W = draw(st.sampled_from([w for w in WS if w >= m]))
            case['W'] = W
            case['cum'] = sorted(draw(st.lists(st.integers(1, W - 1), min_size=m - 1, max_size=m - 1, unique=True)))
        return case
    return build


def distribution(case):
    """-> (p argument or None, exact cumulative fractions at the m-1 cuts, dyadic?)"""
    m, ptype = case['m'], case['ptype']
    if ptype == 'default':
        return None, [Fraction(c, m) for c in range(1, m)], m in (2, 4)
    W, cum = case['W'], case['cum']
    edges = [0] + list(cum) + [W]
    p = [(edges[i + 1] - edges[i]) / W for i in range(m)]
    # the code rejects sum(p) > 1 (builtin sum: compensated for a list, sequential for ndarray elements); the last
    # entry is never used for a cut, so it absorbs the rounding excess
    while sum(p) > 1.0 or float(sum(np.array(p))) > 1.0:
        p[-1] = max(0.0, p[-1] - 2.0 ** -50)
    dyadic = W & (W - 1) == 0
    qs = [Fraction(c, W) for c in cum]
    if ptype == 'float':
        return p[0], qs, dyadic
    return (p if ptype == 'list' else np.array(p)), qs, dyadic


def _apart(a, b):
    """a < b with a gap that survives the float interpolation of the cut point between them."""
    return b - a > 1e-9 * max(1.0, abs(a), abs(b))


def oracle_labels(case, rec, kind='C20/labels'):
    X = build_dataset(case['ds'], kind)
    n, m, k = X.shape[0], case['m'], case['k']
    perm = np.random.Generator(np.random.PCG64(case['perm_seed'])).permutation(n)

    def tiefree(x):
        return np.sum(x, axis=1, dtype=np.int64) * n + perm

    p, qs, dyadic = distribution(case)
    kw = {'n': m, 'k': k}
    if p is not None:
        kw['p'] = p
    if case['dec'] == 'tiefree':
        kw['decision_function'] = tiefree
        dec = tiefree(X)
    elif case['dec'] == 'tiefree-neg':
        shift = int(tiefree(X).max()) + 3 + int(case['perm_seed'] % 50)

        def tiefree_neg(x):          # integer-typed, tie-free and negative decision values (e.g. a cost or a negated count)
            return tiefree(x) - shift
        kw['decision_function'] = tiefree_neg
        dec = tiefree_neg(X)
    elif case['dec'] == 'tiefree-rank':
        def tiefree_rank(x):         # small tie-free decision values 0..n-1 (the row's rank): gaps are large relative to the values
            return np.argsort(np.argsort(tiefree(x), kind='stable'), kind='stable').astype(np.int64)
        kw['decision_function'] = tiefree_rank
        dec = tiefree_rank(X)
    elif case['dec'] == 'linear':
        kw['class_relation'] = 'linear'
        dec = np.sum(2 * X + 3, axis=1)
    else:
        kw['class_relation'] = 'nonlinear'
        dec = np.sum(k * np.sin(X) + k * np.cos(X), axis=1)
    cc = CC()
    np.random.seed(case['perm_seed'])
    y = cut(kind, cc.generate_labels, X, **kw)
    y = np.asarray(y)
    rec.cls('p=' + case['ptype'], 'dec=' + case['dec'], 'classes=%d' % m if m <= 6 else 'classes=7..64' if m <= 64 else 'classes=65..300')
    if y.shape != (n,):
        raise Violation(f'labels have shape {y.shape}, expected ({n},)')
    yl = y.tolist()
    if any(int(v) != v or v < 0 or v > m - 1 for v in yl):
        raise Violation(f'labels {sorted(set(yl))} are not all in 0..{m - 1}')
    order = np.argsort(dec, kind='stable')
    s = dec[order].tolist()
    ys = [int(yl[i]) for i in order.tolist()]
    for i in range(1, n):
        if ys[i] < ys[i - 1] or (s[i] == s[i - 1] and ys[i] != ys[i - 1]):
            raise Violation(f'labels are not a non-decreasing step function of the decision value: decision {s[i - 1]!r} -> '
                            f'class {ys[i - 1]}, decision {s[i]!r} -> class {ys[i]}')
    checked = 0
    ys_arr = np.asarray(ys)
    for c, q in enumerate(qs, start=1):
        t = q * (n - 1)
        j = math.floor(t)
        integral = t.denominator == 1
        if (j + 1 <= n - 1 and not _apart(s[j], s[j + 1])) or (integral and j >= 1 and not _apart(s[j - 1], s[j])):
            rec.cls('cut-tied')
            continue
        checked += 1
        got = int((ys_arr < c).sum())
        allowed = {j + 1} if (not integral or dyadic) else {j, j + 1}
        rec.cls('cut-exact' if len(allowed) == 1 else 'cut-integral-nondyadic')
        if got not in allowed:
            shown = p.tolist() if isinstance(p, np.ndarray) else p
            raise Violation(f'{got} of {n} rows are in classes < {c}, expected {sorted(allowed)} = floor((n-1)*{q})+1 for the '
                            f'requested distribution p={shown} ({type(p).__name__}); class counts {np.bincount(ys, minlength=m).tolist()}')
    rec.nt(case['ptype'] in ('list', 'ndarray') and m >= 3 and checked > 0, key=case)


def oracle_labels_ndarray(case, rec):
    return oracle_labels(case, rec, kind='C20/labels-ndarray')


@st.composite
def cluster_case(draw):
    m = draw(st.integers(2, 5))
    return {'ds': draw(dataset_spec(min_n=m + 2, max_n=60, min_card=3)), 'm': m,
            'random_state': draw(st.integers(0, 1000)), 'np_seed': draw(st.integers(0, 2**32 - 1))}


def oracle_cluster(case, rec):
    kind = 'C20/labels-cluster'
    X = build_dataset(case['ds'], kind)
    np.random.seed(case['np_seed'])
    y = np.asarray(cut(kind, CC().generate_labels, X, n=case['m'], class_relation='cluster',
                       random_state=case['random_state']))
    rec.nt(len(set(y.tolist())) > 1, key=case)
    if y.shape != (X.shape[0],) or any(int(v) != v or v < 0 or v >= case['m'] for v in y.tolist()):
        raise Violation(f'cluster labels: shape {y.shape}, values {sorted(set(y.tolist()))[:8]} for {case["m"]} classes')


# ---- noise ---------------------------------------------------------------------------------------

@st.composite
def noise_level(draw, n):
    mode = draw(st.sampled_from(['special', 'ratio', 'ratio-', 'ratio+', 'float']))
    if mode == 'special':
        return draw(st.sampled_from([0.0, 0.2, 0.5, 0.999, 1.0, 0.1]))
    if mode == 'float':
        return draw(st.floats(0.0, 1.0, allow_nan=False))
    j = draw(st.integers(0, n))
    p = j / n + (0 if mode == 'ratio' else -1e-9 if mode == 'ratio-' else 1e-9)
    return min(1.0, max(0.0, p))


@st.composite
def cat_noise_case(draw):
    m = draw(st.integers(2, 5))
    counts = [draw(st.integers(1, 25))] + [draw(st.integers(2, 25)) for _ in range(m - 1)]
    n = sum(counts)
    return {'ds': draw(dataset_spec(n=n, max_f=5, nonconst=draw(st.booleans()))), 'counts': counts, 'label_seed': draw(st.integers(0, 2**32 - 1)),
            'p': draw(noise_level(n)), 'np_seed': draw(st.integers(0, 2**32 - 1)), 'as_float': draw(st.booleans()),
            'shared_generator': draw(st.sampled_from([False, False, True]))}


def oracle_noise_categorical(case, rec):
    kind = 'C20/noise-categorical'
    cc = CC()
    other = None
    if case.get('shared_generator'):
        # one generator object produced two data sets (other value domains at the same column positions) before any noise call,
        # and noise is applied to both: every feature is perturbed inside ITS OWN domain
        ds2 = dict(case['ds'], own_domains=not case['ds']['own_domains'], low=(case['ds'].get('low') or 0) + 5000, seed=case['ds']['seed'] ^ 1)
        other = build_dataset(ds2, kind, as_float=case['as_float'], cc=cc)
        rec.cls('generator-shared-by-two-data-sets')
    X = build_dataset(case['ds'], kind, as_float=case['as_float'], cc=cc)
    y = labels_from_counts(case['counts'], case['label_seed'])
    X0, y0 = X.copy(), y.copy()
    n, p = X.shape[0], case['p']
    budget = math.floor(p * n)
    np.random.seed(case['np_seed'])
    if other is not None:
        cut(kind, cc.generate_noise, other, y, p=p, type='categorical')
    Z = cut(kind, cc.generate_noise, X, y, p=p, type='categorical')
    if not isinstance(Z, np.ndarray) or Z.shape != X0.shape:
        raise Violation(f'noisy array has shape {getattr(Z, "shape", None)}, expected {X0.shape}')
    if not (np.array_equal(X, X0) and np.array_equal(y, y0)):
        raise Violation('generate_noise(type="categorical") modified its input ' + ('X' if not np.array_equal(X, X0) else 'y'))
    total = 0
    for j in range(X0.shape[1]):
        changed = int(np.sum(Z[:, j] != X0[:, j]))
        total += changed
        if changed > budget:
            raise Violation(f'feature {j}: {changed} cells changed, allowed floor(p*n) = floor({p!r}*{n}) = {budget}')
        foreign = sorted(set(Z[:, j].tolist()) - set(X0[:, j].tolist()))
        if foreign:
            raise Violation(f'feature {j}: noise introduced values {foreign[:6]} that are not in the feature\'s own value set '
                            f'{sorted(set(X0[:, j].tolist()))[:10]}')
    rec.nt(budget >= 1, key=case)
    rec.cls('budget=0' if budget == 0 else 'budget>=1', 'some-cell-changed' if total else 'no-cell-changed',
            'classes=%d' % len(case['counts']), 'own-domains' if case['ds']['own_domains'] else 'shared-domain')


@st.composite
def missing_noise_case(draw):
    n = draw(st.one_of(st.integers(1, 12), st.integers(1, 150)))
    as_float = draw(st.booleans())
    marker = draw(st.sampled_from(['default', 'nan', 'neg1'] if as_float else sorted(MARKERS_INT)))
    return {'ds': draw(dataset_spec(n=n, max_f=5)), 'p': draw(noise_level(n)), 'marker': marker, 'as_float': as_float,
            'np_seed': draw(st.integers(0, 2**32 - 1))}


def oracle_noise_missing(case, rec):
    kind = 'C20/noise-missing'
    X = build_dataset(case['ds'], kind, as_float=case['as_float'])
    X0 = X.copy()
    n, p = X.shape[0], case['p']
    y = np.arange(n) % 2
    want = math.floor(p * n)
    kw = {}
    if case['marker'] == 'nan':
        kw['missing_val'] = float('nan')
    elif case['marker'] != 'default':
        kw['missing_val'] = MARKERS_INT[case['marker']]
    if case['marker'] not in ('nan', 'default') and bool(np.any(X0 == kw['missing_val'])):
        rec.cls('excluded:marker-value-occurs-in-data')       # a marker must be distinguishable from the data to be counted
        return
    np.random.seed(case['np_seed'])
    Z = cut(kind, CC().generate_noise, X, y, p=p, type='missing', **kw)
    if not isinstance(Z, np.ndarray) or Z.shape != X0.shape:
        raise Violation(f'noisy array has shape {getattr(Z, "shape", None)}, expected {X0.shape}')
    if not np.array_equal(X, X0):
        raise Violation('generate_noise(type="missing") modified its input array')
    for j in range(X0.shape[1]):
        col = Z[:, j]
        if case['marker'] == 'nan':
            is_marker = np.isnan(col)
        else:
            is_marker = col == kw.get('missing_val', float('-inf'))
        if int(is_marker.sum()) != want:
            raise Violation(f'feature {j}: {int(is_marker.sum())} missing markers, expected exactly floor(p*n) = '
                            f'floor({p!r}*{n}) = {want}')
        if not np.array_equal(col[~is_marker], X0[~is_marker, j]):
            raise Violation(f'feature {j}: a cell that is not a missing marker differs from the input')
    rec.nt(want >= 1, key=case)
    rec.cls('markers=0' if want == 0 else 'markers>=1', 'marker=' + case['marker'])


# ---- down-sampling -------------------------------------------------------------------------------

@st.composite
def downsample_case(draw):
    m = draw(st.integers(2, 5))
    counts = draw(st.lists(st.one_of(st.integers(1, 3), st.integers(3, 25)), min_size=m, max_size=m))
    lo = min(counts)
    req = draw(st.one_of(st.none(), st.integers(1, lo), st.integers(max(1, lo - 2), lo), st.just(lo + 1)))
    return {'ds': draw(dataset_spec(n=sum(counts), max_f=4)), 'counts': counts, 'label_seed': draw(st.integers(0, 2**32 - 1)),
            'n': req, 'seed': draw(st.integers(0, 2**31 - 1)), 'reshuffle': draw(st.booleans()),
            'id_col': draw(st.booleans()), 'y_list': draw(st.booleans()),
            'label_values': draw(st.sampled_from(['0..m-1', '0..m-1', 'gap', 'offset', 'sparse'])),
            'np_seed': draw(st.integers(0, 2**32 - 1))}


def oracle_downsample(case, rec):
    kind = 'C20/downsample'
    X = build_dataset(case['ds'], kind, id_col=case['id_col'])
    y = labels_from_counts(case['counts'], case['label_seed'])
    lo, m, req = min(case['counts']), len(case['counts']), case['n']
    # class labels need not be 0..m-1 (a class of the requested distribution may be empty, labels may come from elsewhere)
    lv = case.get('label_values', '0..m-1')
    values = (list(range(m)) if lv == '0..m-1' else [0] + list(range(2, m + 1)) if lv == 'gap'
              else list(range(3, m + 3)) if lv == 'offset' else [0] + [5 * i + 4 for i in range(1, m)])
    y = np.asarray(values)[y]
    X0 = X.copy()
    yarg = y.tolist() if case['y_list'] else y
    cc = CC()
    np.random.seed(case['np_seed'])
    if req is not None and req > lo:
        rec.cls('n>min-count')
        rec.nt(True, key=case)
        try:
            cc.downsample_dataset(X, yarg, n=req, seed=case['seed'], reshuffle=case['reshuffle'])
        except ValueError:
            return
        except Exception as e:  # noqa: BLE001
            raise Violation(f'n={req} > min class count {lo}: raised {type(e).__name__}: {e} instead of ValueError')
        raise Violation(f'n={req} > min class count {lo} did not raise')
    Xd, yd = cut(kind, cc.downsample_dataset, X, yarg, n=req, seed=case['seed'], reshuffle=case['reshuffle'])
    Xd, yd = np.asarray(Xd), np.asarray(yd)
    k = lo if req is None else req
    if Xd.shape != (k * m, X0.shape[1]) or yd.shape != (k * m,):
        raise Violation(f'down-sampled shapes {Xd.shape}, {yd.shape}; expected {k} rows for each of {m} classes')
    if not np.array_equal(X, X0):
        raise Violation('downsample_dataset modified its input array')
    rows_by_class = {v: set(map(tuple, X0[y == v].tolist())) for v in values}
    distinguishable = any(rows_by_class[a] - rows_by_class[b] for a in values for b in values if a != b)
    rec.nt(req is not None and distinguishable, key=case)
    rec.cls('n=None' if req is None else 'n==min-count' if req == lo else 'n<min-count',
            'reshuffle' if case['reshuffle'] else 'ordered', 'id-col' if case['id_col'] else 'no-id-col', 'labels=' + lv)
    ydl = yd.tolist()
    if not set(ydl) <= set(values):
        raise Violation(f'down-sampled labels {sorted(set(ydl))} contain classes that do not exist in the data ({values})')
    for v in values:
        sel = [i for i, lab in enumerate(ydl) if lab == v]
        if len(sel) != k:
            raise Violation(f'class {v}: {len(sel)} rows after down-sampling to n={k} (labels {sorted(set(ydl))})')
        for i in sel:
            if tuple(Xd[i].tolist()) not in rows_by_class[v]:
                raise Violation(f'row {i} of the down-sampled data {Xd[i].tolist()} is labelled {v} but is not an original '
                                f'row of class {v}')


ORACLES = {
    'C20/correlation': oracle_correlation, 'C20/duplicates': oracle_duplicates, 'C20/combinations': oracle_combinations,
    'C20/info-correlations': oracle_info_corr, 'C20/info-duplicates': oracle_info_dup, 'C20/info-combinations': oracle_info_comb,
    'C20/labels': oracle_labels, 'C20/labels-ndarray': oracle_labels_ndarray, 'C20/labels-cluster': oracle_cluster,
    'C20/noise-categorical': oracle_noise_categorical, 'C20/noise-missing': oracle_noise_missing,
    'C20/downsample': oracle_downsample,
}


def run(ctx):
    clauses = [
        Clause('C20/correlation', corr_case, oracle_correlation, quick=600, thorough=96000, quick_shards=3),
        Clause('C20/duplicates', dup_case, oracle_duplicates, quick=300, thorough=24000, quick_shards=1),
        Clause('C20/combinations', comb_case, oracle_combinations, quick=400, thorough=36000, quick_shards=1),
        Clause('C20/info-correlations', info_case('corr'), oracle_info_corr, quick=200, thorough=24000, quick_shards=1),
        Clause('C20/info-combinations', info_case('comb'), oracle_info_comb, quick=200, thorough=24000, quick_shards=1),
        Clause('C20/labels', label_case(['default', 'float', 'list']), oracle_labels, quick=2400, thorough=144000, quick_shards=3),
        Clause('C20/labels-cluster', cluster_case, oracle_cluster, quick=40, thorough=4800, quick_shards=2),
        Clause('C20/noise-categorical', cat_noise_case, oracle_noise_categorical, quick=500, thorough=48000, quick_shards=2),
        Clause('C20/noise-missing', missing_noise_case, oracle_noise_missing, quick=400, thorough=36000, quick_shards=1),
        Clause('C20/downsample', downsample_case, oracle_downsample, quick=400, thorough=36000, quick_shards=2),
    ]
    if ctx.known('duplicate-indices-short'):
        ctx.stats.excluded['info-duplicates clause (known finding)'] += 1
    else:
        clauses.append(Clause('C20/info-duplicates', info_case('dup'), oracle_info_dup, quick=200, thorough=24000,
                              quick_shards=1))
    # ndarray distributions: with the known finding only the 2-class branch (which honours ndarray) is exercised
    nd_max2 = ctx.known('labels-ndarray-distribution')
    if nd_max2:
        ctx.stats.excluded['ndarray distribution with > 2 classes (known finding)'] += 1
    clauses.append(Clause('C20/labels-ndarray', label_case(['ndarray']) if not nd_max2 else label_case_two_classes,
                          oracle_labels_ndarray, quick=400, thorough=36000, quick_shards=1))
    drive(ctx, clauses)


@st.composite
def label_case_two_classes(draw):
    case = draw(label_case(['ndarray'])())
    if case['m'] != 2:
        case['m'] = 2
        case['cum'] = case['cum'][:1]
    return case
