"""C01 - plain estimator equals the plug-in Shannon mutual information."""
from __future__ import annotations

import itertools
import math

import numpy as np
from hypothesis import strategies as st

from vlib import gens, refmodels as rm
from vlib.harness import Clause, Rec, Stats, Violation, drive, run_sharded

from outrank.algorithms.feature_ranking import ranking_mi_numba as cut

ID = 'C01'
RULE = ('Exhaustive: every ordered pair of set partitions of [n] (restricted growth strings), n<=6 quick / '
        'n<=7 thorough plus, for n=8, a seed-chosen quarter of the Y partitions against all X partitions, each realised with canonical codes and with a sparse injective recoding into [0,2^20). '
        'Generated: element-wise pairs (n<=64) and PRNG-built structured families (independent, function, noisy '
        'copy, constant / all-distinct side, dominant value + singletons, few large + many singleton strata, '
        'row-permuted copy, identical) with n up to 2000 (quick) / 10^6 (thorough); a "wide" clause with more than 2^16 distinct '
        'feature codes (n 65 600 - 72 000, dense or sparse codes) against a target with 2-4 strata; a "high-card" clause (n 3000-12000, '
        '1100..n/2 feature values); a "views" clause where the two arguments are overlapping windows of one int32 buffer. Every pair is '
        'scored twice on the same caller-owned array objects. Non-trivial = both sides '
        'non-constant and (I_ref > 1e-3 or at least 2x2 occupied joint cells); distinct = digest of (Y, X).')
ASSUMPTIONS = ['reference = textbook sum p_xy ln(p_xy/(p_x p_y)) in float64 with math.fsum',
               'tolerance 2e-5 + 2e-6*(H(X)+H(Y)) covers float32 rounding of per-stratum terms and the result']


def _call(Ya, Xa, c):
    """The entry point is called directly from the oracle: an exception on a valid pair of int32 vectors is a violation."""
    try:
        return float(cut.mutual_info_estimator_numba(Ya, Xa, np.float32(1.0), bool(c)))
    except Exception as e:  # noqa: BLE001
        raise Violation(f'estimator raised {type(e).__name__}: {str(e)[:300]} for int32 vectors of length {len(Xa)} '
                        f'(contiguous: {Ya.flags.c_contiguous}, {Xa.flags.c_contiguous})', kind='C01/exception')


def own(v):
    """The caller's own int32 array (scored repeatedly, as a caller holding its data would)."""
    return np.ascontiguousarray(v, dtype=np.int32).copy()


def mi(Y, X):
    """Score on caller-owned int32 arrays: `Y`, `X` may be int32 arrays the oracle keeps and passes again."""
    Ya = Y if isinstance(Y, np.ndarray) and Y.dtype == np.int32 else own(Y)
    Xa = X if isinstance(X, np.ndarray) and X.dtype == np.int32 else own(X)
    return _call(Ya, Xa, False)


def _nontrivial(Y, X, iref):
    ly, lx = Y.tolist(), X.tolist()
    if len(set(ly)) < 2 or len(set(lx)) < 2:
        return False
    return iref > 1e-3 or len(set(zip(lx, ly))) >= 4


def oracle_reference(case, rec):
    if 'lagged' in case:
        _, Ya, Xa = gens.build_lagged(case['lagged'])      # int32 views of one buffer (overlapping and / or strided)
        Y, X = Ya.astype(np.int64), Xa.astype(np.int64)     # values as passed, kept for the reference
        rec.cls('views:' + case['lagged'].get('layout', 'windows'))
    else:
        Y, X = gens.materialize_pair(case)
        Ya, Xa = own(Y), own(X)
    n = len(X)
    hx, hy = rm.entropy(X), rm.entropy(Y)
    t = rm.tol(hx=hx, hy=hy)
    iref = rm.mi_ref(Y, X)
    got = mi(Ya, Xa)
    rec.nt(_nontrivial(Y, X, iref), key=[Y.tolist(), X.tolist()] if n <= 64 else case)
    if 'wide' in case:
        rec.cls('wide:>65536-distinct-codes')
    rec.cls('n=1' if n == 1 else 'n<=8' if n <= 8 else 'n<=64' if n <= 64 else 'n<=2000' if n <= 2000 else 'n>2000')
    if 'gen' in case:
        rec.cls('fam=' + case['gen']['fam'])
    if not math.isfinite(got) or abs(got - iref) > t:
        raise Violation(f'mi(Y,X)={got!r} but plug-in MI={iref!r} (tol {t:.2e}), n={n}')
    if case.get('both'):
        # plug-in MI is symmetric: the other argument order must give the same reference value (the kernel iterates over the strata
        # of one argument only, so the two orders exercise different loops)
        got2 = mi(Xa, Ya)
        if not math.isfinite(got2) or abs(got2 - iref) > t:
            raise Violation(f'mi(X,Y)={got2!r} but plug-in MI={iref!r} (tol {t:.2e}), n={n} (arguments in swapped order)')
    if 2 <= n <= 20000 and 'lagged' not in case:
        # the caller refills the SAME array object in place (a preallocated batch buffer) and scores it again: the new contents count
        keep = Ya.copy()
        # other rows AND another value histogram: reversed, and every third row recoded to a fresh code
        Ya[:] = np.where(np.arange(n) % 3 == 0, int(keep.max()) + 1, keep[::-1])
        if not np.array_equal(Ya, keep):
            rec.cls('argument-array-refilled-in-place')
            iref2 = rm.mi_ref(Ya.tolist(), X)
            got3 = mi(Ya, Xa)
            if not math.isfinite(got3) or abs(got3 - iref2) > t:
                raise Violation(f'after refilling the first argument array in place (rows reversed, every third row recoded) mi={got3!r}, plug-in MI of the new '
                                f'contents={iref2!r}; the previous contents scored {got!r} (n={n})', kind='C01/repeat-call')
        Ya[:] = keep
    if n <= 20000:
        # the same objects scored again (a caller reusing its arrays): still the plug-in MI of the vectors the caller passed
        again = mi(Ya, Xa)
        if abs(again - iref) > t:
            raise Violation(f'second call on the same array objects gives {again!r}, first gave {got!r}, plug-in MI={iref!r} '
                            f'(n={n}); arguments unchanged by the caller', kind='C01/repeat-call')


def oracle_corollaries(case, rec):
    Y, X = gens.materialize_pair(case)
    n = len(X)
    hx, hy = rm.entropy(X), rm.entropy(Y)
    t = rm.tol(hx=hx, hy=hy)
    a, b = mi(Y, X), mi(X, Y)
    rec.nt(len(set(Y.tolist())) > 1 and len(set(X.tolist())) > 1, key=[Y.tolist(), X.tolist()] if n <= 64 else case)
    if abs(a - b) > 2 * t:
        raise Violation(f'not symmetric: mi(Y,X)={a!r} mi(X,Y)={b!r}', kind='C01/symmetry')
    if a < -t:
        raise Violation(f'meaningfully negative: {a!r}', kind='C01/nonneg')
    if (hx == 0 or hy == 0) and abs(a) > t:
        rec.cls('constant-side')
        raise Violation(f'constant side but score {a!r}', kind='C01/constant')
    if a > min(hx, hy) + t:
        raise Violation(f'score {a!r} exceeds min(H(X),H(Y))={min(hx, hy)!r}', kind='C01/upper')
    sx = mi(X, X)
    if abs(sx - hx) > t:
        raise Violation(f'self score {sx!r} != H(X)={hx!r}', kind='C01/self')


ORACLES = {'C01/exception': oracle_reference, 'C01/many-strata': oracle_reference, 'C01/max-n': oracle_reference, 'C01/repeat-call': oracle_reference, 'C01/views': oracle_reference, 'C01/high-card': oracle_reference, 'C01/wide': oracle_reference, 'C01/reference': oracle_reference, 'C01/corollaries': oracle_corollaries,
           'C01/exhaustive': oracle_reference}
for _k in ('symmetry', 'nonneg', 'constant', 'upper', 'self'):
    ORACLES['C01/' + _k] = oracle_corollaries


def pair_strategy(tier):
    sizes = ((2, 8), (9, 64), (65, 2000))
    parts = [gens.small_pair(), gens.family_pair(sizes=sizes), recoded_pair()]
    return st.one_of(*parts)


@st.composite
def recoded_pair(draw):
    """A small pair whose codes are recoded injectively (sparse, lattice of powers of two with the top code 2^20-1, big offsets)."""
    base = draw(gens.small_pair(max_n=40))
    Y = gens.apply_relabel(base['Y'], draw(gens.relabel_spec()))
    X = gens.apply_relabel(base['X'], draw(gens.relabel_spec()))
    return {'Y': Y.tolist(), 'X': X.tolist()}


def big_pair_strategy():
    return gens.family_pair(sizes=((2001, 100000), (100001, 1000000)), max_product=2 * 10**7)


# ---- exhaustive small scope -----------------------------------------------------------------------

def _sparse_codes(k, salt):
    rng = np.random.Generator(np.random.PCG64(salt))
    return rng.choice(gens.MAX_CODE, size=k, replace=False)


def _enumerate_shard(args):
    n, shard, nshards, seed = args
    parts = gens.rgs(n)
    arrs = [np.asarray(p, dtype=np.int32) for p in parts]
    sparse = _sparse_codes(n, seed * 977 + n)
    arrs_sparse = [sparse[np.asarray(p)].astype(np.int32) for p in parts]
    ents = [rm.entropy(p) for p in parts]
    evals = nontriv = 0
    fail = None
    sample = None
    f32 = np.float32(1.0)
    for i in range(shard, len(parts), nshards):
        Yl = parts[i]
        for j in range(len(parts)):
            Xl = parts[j]
            iref = rm.mi_ref(Yl, Xl)
            t = 2e-5 + 2e-6 * (ents[i] + ents[j])
            g1 = float(cut.mutual_info_estimator_numba(arrs[i], arrs[j], f32, False))
            g2 = float(cut.mutual_info_estimator_numba(arrs_sparse[i], arrs_sparse[j], f32, False))
            evals += 2
            if ents[i] > 0 and ents[j] > 0 and (iref > 1e-3 or len(set(zip(Xl, Yl))) >= 4):
                nontriv += 2
                if sample is None and i > len(parts) // 2:
                    sample = {'Y': list(Yl), 'X': list(Xl), 'score': g1, 'reference': iref}
            bad = None
            if not (abs(g1 - iref) <= t):
                bad = {'Y': list(Yl), 'X': list(Xl)}
            elif not (abs(g2 - iref) <= t):
                bad = {'Y': arrs_sparse[i].tolist(), 'X': arrs_sparse[j].tolist()}
            if bad is not None and fail is None:
                fail = bad
        if fail is not None:
            break
    return evals, nontriv, fail, sample


def run(ctx):
    max_n = 6 if ctx.tier == 'quick' else 8
    # exhaustive part
    jobs = []
    for n in range(1, max_n + 1):
        nsh = 1 if n <= 5 else 16 if n == 6 else 64
        for s in range(nsh):
            if n == 8 and s % 4 != ctx.seed % 4:
                continue   # n = 8: a quarter of the Y partitions (chosen by the seed) against ALL X partitions: 4.3M of 17.1M pairs
            jobs.append((n, s, nsh, ctx.seed))
    results = run_sharded(lambda i: _enumerate_shard(jobs[i]), len(jobs))
    enum_evals = 0
    fails = []
    for (evals, nontriv, fail, sample) in results:
        enum_evals += evals
        ctx.stats.evaluations += evals
        ctx.stats.nontrivial_count_only += nontriv
        if sample is not None and len(ctx.stats.samples) < 3:
            ctx.stats.samples.append({'kind': 'C01/exhaustive', 'case': sample})
        if fail is not None:
            fails.append(fail)
    ctx.stats.per_kind['C01/exhaustive'] = {'evaluations': enum_evals, 'nontrivial': ctx.stats.nontrivial_count_only}
    ctx.extra['exhaustive_scope'] = ('all ordered pairs of set partitions of [n], n<=%d%s, x2 codings: %d evaluations'
                                     % (min(max_n, 7), ' (+ a quarter of n=8)' if max_n == 8 else '', enum_evals))
    ctx.exhaustive = False  # the generated part is not exhaustive; the sub-scope above is
    ctx.extra['exhaustive_subscope_complete'] = not fails
    if fails:
        fails.sort(key=lambda c: (len(c['X']), c['X'], c['Y']))
        case = fails[0]
        res = ctx.run_oracle('C01/exhaustive', oracle_reference, case, Stats())
        ctx.report('C01/exhaustive', case, res[1] if res else 'enumeration mismatch (not reproduced on re-run)')

    clauses = [
        Clause('C01/reference', lambda: pair_strategy(ctx.tier), oracle_reference, quick=1200, thorough=40000,
               quick_shards=4),
        Clause('C01/corollaries', lambda: pair_strategy(ctx.tier), oracle_corollaries, quick=800, thorough=30000,
               quick_shards=4),
    ]
    clauses.append(Clause('C01/views', lambda: gens.lagged_pair(), oracle_reference, quick=300, thorough=20000, quick_shards=2))
    clauses.append(Clause('C01/high-card', lambda: gens.highcard_pair(), oracle_reference, quick=24, thorough=600, quick_shards=8))
    clauses.append(Clause('C01/many-strata', lambda: gens.manystrata_pair(), oracle_reference, quick=2, thorough=32, quick_shards=2,
                          thorough_shards=16))
    clauses.append(Clause('C01/max-n', lambda: gens.maxn_pair(), oracle_reference, quick=2, thorough=16, quick_shards=2, thorough_shards=8))
    clauses.append(Clause('C01/wide', lambda: gens.wide_pair(), oracle_reference, quick=4, thorough=48, quick_shards=4,
                          thorough_shards=16))
    if ctx.tier == 'thorough':
        clauses.append(Clause('C01/reference', big_pair_strategy, oracle_reference, quick=0, thorough=192,
                              thorough_shards=16))
    drive(ctx, clauses)
