"""C04 - subsampled estimation is memory-safe, deterministic and sample-only.

No estimator call with r < 1 ever runs in the harness process: every example is evaluated by request /
response on persistent sacrificial worker interpreters (vlib/c04_worker.py), started with different
MALLOC_PERTURB_ bytes; the heap history of the case is applied inside the worker right before the call."""
from __future__ import annotations

import atexit
import json
import math
import os
import struct
import subprocess
import sys
import tempfile

import numpy as np
from hypothesis import strategies as st

from vlib import gens, refmodels as rm
from vlib.harness import REPO, VERIF_DIR, digest, Clause, HarnessError, Inconclusive, Violation, drive

ID = 'C04'
RULE = ('Pairs as in C01 (n<=5000) plus a directed family with explicit stratum sizes, x float32 ratios r in (0,1), x '
        'correction flag, x three generated heap histories (freed malloc chunks of the index-buffer size classes filled with '
        'row-like numbers, n, -1, 2^31, NaN, 1e300, far indices) applied in the worker before the call; two workers with '
        'different MALLOC_PERTURB_ bytes. Non-trivial = some stratum smaller than the quota or quota*#values < floor(r*n) '
        '(the index buffer has an unwritten tail). A directed class draws short-decimal / small-fraction ratios with row counts '
        'that are multiples of 10/20/40, so that r*n sits next to an integer. Distinct = digest of (Y, X, r, c).')
ASSUMPTIONS = ['r is the float32 ratio the estimator receives: floor(r*n) is the floor of the exact product of that float32 value '
               'and n (float32 x n is exact in float64 for n < 2^29)',
               'numba-JITed code cannot be built with a sanitizer here: an out-of-bounds read is visible only through '
               'termination, non-determinism under poisoned/perturbed heaps, or a score that differs from the model',
               'reference = anchored mechanism (sample entropies with original stratum weights, scaled by r)']

PATTERNS = ['rows', 'lastrow', 'n', 'minus1', 'big', 'nan', 'huge', 'far', 'zero']
PERTURB = [None, '85', '170', '255', '1', '204']


class WorkerDied(Exception):
    def __init__(self, rc, journal_tail):
        super().__init__(f'worker terminated abnormally rc={rc} last journal line={journal_tail!r}')
        self.rc = rc


class Worker:
    def __init__(self, perturb):
        self.perturb = perturb
        self.proc = None
        self.served = 0
        jdir = os.path.join(VERIF_DIR, '.cache', 'c04')
        os.makedirs(jdir, exist_ok=True)
        self.journal = tempfile.NamedTemporaryFile(prefix='journal-', suffix='.log', delete=False, dir=jdir).name

    def spawn(self):
        env = dict(os.environ, VERIF_REPO=REPO, C04_JOURNAL=self.journal, PYTHONHASHSEED='0')
        env.pop('MALLOC_PERTURB_', None)
        if self.perturb is not None:
            env['MALLOC_PERTURB_'] = self.perturb
        open(self.journal, 'w').close()
        self.proc = subprocess.Popen([sys.executable, os.path.join(VERIF_DIR, 'vlib', 'c04_worker.py')],
                                     stdin=subprocess.PIPE, stdout=subprocess.PIPE, stderr=subprocess.DEVNULL,
                                     env=env, text=True, bufsize=1)
        line = self.proc.stdout.readline()
        if not line or not json.loads(line).get('imported'):
            raise HarnessError(f'C04 worker failed to import the code under test (rc={self.proc.wait()})')
        line = self.proc.stdout.readline()
        if not line or not json.loads(line).get('ready'):
            rc = self.proc.wait()
            self.proc = None
            raise WorkerDied(rc, 'warm-up call Y=[0,1,0,1] X=[0,0,1,1] r=0.5 c=True')
        self.served = 0

    def call(self, rid, calls):
        if self.proc is None or self.proc.poll() is not None:
            self.spawn()
        if self.served >= 400:   # fresh interpreter every few hundred requests
            self.close()
            self.spawn()
        try:
            self.proc.stdin.write(json.dumps({'id': rid, 'calls': calls}) + '\n')
            self.proc.stdin.flush()
            line = self.proc.stdout.readline()
        except (BrokenPipeError, OSError):
            line = ''
        if not line:
            rc = self.proc.wait()
            tail = ''
            try:
                with open(self.journal) as fh:
                    lines = fh.read().strip().splitlines()
                    tail = lines[-1] if lines else ''
            except OSError:
                pass
            self.proc = None
            raise WorkerDied(rc, tail)
        self.served += 1
        resp = json.loads(line)
        if 'error' in resp:
            raise WorkerDied('python-exception', resp['error'])
        return resp['bits']

    def close(self):
        if self.proc is not None and self.proc.poll() is None:
            try:
                self.proc.stdin.close()
                self.proc.wait(timeout=5)
            except Exception:  # noqa: BLE001
                self.proc.kill()
        self.proc = None

    def cleanup(self):
        self.close()
        try:
            os.unlink(self.journal)
        except OSError:
            pass


_WORKERS = {}
_RID = [0]


def workers(k=0):
    pid = os.getpid()
    if pid not in _WORKERS:
        # perturbation bytes are a function of the first case this process evaluates (deterministic per seed)
        a, b = Worker(PERTURB[k % len(PERTURB)]), Worker(PERTURB[(k % len(PERTURB) + 1 + (k // 7) % (len(PERTURB) - 1)) % len(PERTURB)])
        _WORKERS[pid] = (a, b)
        atexit.register(_cleanup, pid)
    return _WORKERS[pid]


def _cleanup(pid):
    ws = _WORKERS.pop(pid, None)
    if ws:
        for w in ws:
            w.cleanup()


def bits_to_float(b):
    return struct.unpack('<f', struct.pack('<I', b))[0]


# ---- strategies ----------------------------------------------------------------------------------

def ratio():
    return st.floats(min_value=float(np.float32(0.005)), max_value=float(np.float32(0.995)), width=32, allow_nan=False).map(lambda r: float(np.float32(r)))


def heap_history():
    return st.lists(st.tuples(st.sampled_from(PATTERNS), st.integers(1, 3)).map(list), min_size=0, max_size=3)


@st.composite
def directed_pair(draw):
    """Explicit stratum sizes: mixes tiny and large strata so that quotas exceed some strata."""
    sizes = draw(st.lists(st.one_of(st.integers(1, 6), st.integers(7, 120)), min_size=1, max_size=8))
    k = draw(st.integers(0, 2**32 - 1))
    ky = draw(st.integers(1, 8))
    order = draw(st.sampled_from(['blocked', 'shuffled']))
    if draw(st.booleans()):
        m = draw(st.sampled_from([10, 20, 40]))
        pad = (-sum(sizes)) % m
        sizes = sizes[:-1] + [sizes[-1] + pad]       # total row count a multiple of 10/20/40
    return {'strata': {'sizes': sizes, 'k': k, 'ky': ky, 'order': order}}


@st.composite
def highcode_pair(draw):
    """2 100 - 7 000 rows in 2-12 strata of unequal size whose codes are spread over [0, 2^20): code x n exceeds 2^31, so any
    row/value key packed into 32 bits wraps."""
    sizes = draw(st.lists(st.integers(20, 900), min_size=2, max_size=12))
    if sum(sizes) < 2100:
        sizes = sizes + [2100 - sum(sizes)]
    return {'strata': {'sizes': sizes, 'k': draw(st.integers(0, 2**32 - 1)), 'ky': draw(st.integers(2, 6)),
                       'order': draw(st.sampled_from(['blocked', 'shuffled', 'shuffled']))},
            'recode': draw(st.sampled_from(['spread', 'spread', 'top', 'offset']))}


@st.composite
def blocky_pair(draw):
    """n beyond 2^16 (up to the 10^6 of the domain) with rare target values whose first rows straddle multiples of 65536:
    block-wise scans must still take exactly the first quota rows of each value."""
    n = draw(st.integers(70_000, 140_000))
    return {'blocky': {'n': n, 'q': draw(st.integers(6, 40)), 'before': draw(st.integers(1, 8)), 'after': draw(st.integers(10, 120)),
                       'seed': draw(st.integers(0, 2**32 - 1)), 'ky': draw(st.integers(2, 5))}}


@st.composite
def many_strata_pair(draw):
    """Many small strata (2..200 target values) and a ratio chosen so that floor(r*n) is an exact multiple of their number."""
    k = draw(st.integers(2, 200))
    size = draw(st.integers(2, 4))
    m = draw(st.integers(1, size))
    return {'manystrata': {'k': k, 'size': size, 'm': m, 'seed': draw(st.integers(0, 2**32 - 1)), 'ky': draw(st.integers(2, 6))}}


def materialize(case):
    if 'blocky' in case:
        g = case['blocky']
        rng = np.random.Generator(np.random.PCG64(int(g['seed'])))
        n = int(g['n'])
        X = np.zeros(n, dtype=np.int64)
        b = 65536
        X[b - int(g['before']):b] = 1                       # a few rows of value 1 just before the block boundary ...
        X[b + 5:b + 5 + int(g['after'])] = 1                # ... and more right after it
        X[n - 40:n - 20] = 2                                # a rare value near the end
        Y = rng.integers(0, int(g['ky']), size=n)
        return Y.astype(np.int64), X.astype(np.int64)
    if 'manystrata' in case:
        g = case['manystrata']
        rng = np.random.Generator(np.random.PCG64(int(g['seed'])))
        X = np.repeat(np.arange(int(g['k'])), int(g['size']))
        X = X[rng.permutation(len(X))]
        Y = rng.integers(0, int(g['ky']), size=len(X))
        return Y.astype(np.int64), X.astype(np.int64)
    if 'strata' in case:
        s = case['strata']
        rng = np.random.Generator(np.random.PCG64(int(s['k'])))
        X = np.concatenate([np.full(sz, i, dtype=np.int64) for i, sz in enumerate(s['sizes'])])
        if s['order'] == 'shuffled':
            X = X[rng.permutation(len(X))]
        Y = rng.integers(0, s['ky'], size=len(X))
        return Y.astype(np.int64), X.astype(np.int64)
    return gens.materialize_pair(case)


@st.composite
def c04_case(draw):
    case = dict(draw(st.one_of(directed_pair(), directed_pair(), many_strata_pair(), gens.small_pair(), highcode_pair(),
                               gens.family_pair(sizes=((2, 8), (9, 64), (65, 2000), (2001, 5000)), max_product=10**7))))
    # most ratios are drawn so that the quota is at least 1 (quota 0 means "all rows" and has no unwritten tail)
    forced_recode = case.get('recode')
    _, X0 = materialize(case)
    n0, k0 = len(X0), len(set(X0.tolist()))
    lo = (k0 + 0.5) / n0 if n0 else 1.0
    mode = draw(st.integers(0, 5))
    if 'blocky' in case:
        g = case['blocky']
        case['r'] = float(np.float32((3 * int(g['q']) + 1.5) / n0))      # quota = q for the three target values
    elif 'manystrata' in case:
        # smallest float32 ratio with floor(r*n) == m*k exactly
        from fractions import Fraction
        g = case['manystrata']
        target = int(g['m']) * int(g['k'])
        r = np.float32(target / n0)
        while int(Fraction(float(r)) * n0) < target:
            r = np.nextafter(r, np.float32(1.0), dtype=np.float32)
        case['r'] = float(r) if float(r) < 1.0 else float(np.float32(0.5))
    elif mode == 5 and n0 >= 2:
        # short decimals / small fractions: float32(r) lies just below or above a/b, so r*n sits next to an integer when b | n
        b = draw(st.sampled_from([2, 4, 5, 8, 10, 20]))
        a = draw(st.integers(1, b - 1))
        case['r'] = float(np.float32(a / b))
    elif lo < 0.99 and mode > 0:
        case['r'] = draw(st.floats(min_value=float(np.float32(lo)), max_value=float(np.float32(0.995)), width=32,
                                   allow_nan=False).map(lambda r: float(np.float32(r))))
    else:
        case['r'] = draw(ratio())
    case['c'] = draw(st.booleans())
    case['heaps'] = [draw(heap_history()) for _ in range(3)]
    case['alt'] = draw(st.integers(0, 2**31 - 1))
    # the same partition structure with codes anywhere in [0, 2^20) (C01's code domain): sampling depends on first rows per value only
    case['recode'] = forced_recode or draw(st.sampled_from([None, None, None, 'top', 'spread', 'offset']))
    return case


def recode(v, how):
    """Injective recoding of one vector into [0, 2^20)."""
    if not how or len(v) == 0:
        return v
    top = 2**20 - 1
    vals = np.unique(v)
    rank = np.searchsorted(vals, v)
    if how == 'top':
        return (top - rank).astype(np.int64)
    if how == 'spread':
        return (rank * (top // max(len(vals) - 1, 1))).astype(np.int64)
    return (v + (top - int(vals[-1]))).astype(np.int64)


@st.composite
def wide_case(draw):
    case = dict(draw(blocky_pair()))
    _, X0 = materialize(case)
    g = case['blocky']
    case['r'] = float(np.float32((3 * int(g['q']) + 1.5) / len(X0)))
    case['c'] = draw(st.booleans())
    case['heaps'] = [draw(heap_history()) for _ in range(3)]
    case['alt'] = draw(st.integers(0, 2**31 - 1))
    return case


# ---- oracle --------------------------------------------------------------------------------------

def oracle(case, rec):
    Y, X = materialize(case)
    if case.get('recode'):
        Y, X = recode(Y, case['recode']), recode(X, case['recode'])
        rec.cls('codes-near-2^20')
    n = len(X)
    r, c = float(np.float32(case['r'])), bool(case['c'])
    # r is the float32 value the estimator receives; float32 x n (< 2^29) is exact in float64, so floor(r*n) is determined
    from fractions import Fraction
    exact_final = int(Fraction(r) * n)
    if abs(r * n - round(r * n)) < 1e-4:
        rec.cls('r*n-within-1e-4-of-an-integer')
    Yl, Xl = Y.tolist(), X.tolist()
    values = sorted(set(Xl))
    q, final = rm.sample_quota(n, r, len(values))
    if final != exact_final:
        raise HarnessError(f'reference floor(r*n) {final} != exact {exact_final}')
    from collections import Counter
    cx = Counter(Xl)
    small_stratum = q > 0 and any(v < q for v in cx.values())
    tail = q > 0 and (small_stratum or q * len(values) < final)
    if 'blocky' in case:
        rec.cls('n>65536:quota-rows-straddle-a-block-boundary')
    rec.nt(tail or 'manystrata' in case or 'blocky' in case, key=[Yl, Xl, r, c] if n <= 64 else [{k: v for k, v in case.items() if k in ('gen', 'strata', 'manystrata', 'blocky')}, r, c])
    rec.cls('quota=0' if q == 0 else 'quota>0')
    if 'manystrata' in case:
        rec.cls('floor(rn)-exact-multiple-of-many-strata')
    if small_stratum:
        rec.cls('stratum<quota')
    if q > 0 and final % len(values) != 0:
        rec.cls('floor(rn)-not-multiple-of-strata')
    try:
        wa, wb = workers(digest([Yl, Xl, r]))
    except WorkerDied as e:
        raise Violation(f'estimator call did not terminate normally: {e}', kind='C04/abnormal-termination')
    _RID[0] += 1
    rid = _RID[0]
    base = {'Y': Yl, 'X': Xl, 'r': r, 'c': c}
    try:
        bits_a = wa.call(rid, [dict(base, heap=h) for h in case['heaps']])
        bits_b = wb.call(rid, [dict(base, heap=case['heaps'][0])])
    except WorkerDied as e:
        raise Violation(f'estimator call did not terminate normally: {e} (n={n}, r={r!r}, c={c})',
                        kind='C04/abnormal-termination')
    allbits = bits_a + bits_b
    score = bits_to_float(allbits[0])
    if len(set(allbits)) != 1:
        raise Violation(f'score is not deterministic across heap histories / processes: '
                        f'{[bits_to_float(b) for b in allbits]} (MALLOC_PERTURB_ {wa.perturb} vs {wb.perturb}; n={n}, r={r!r}, c={c})',
                        kind='C04/determinism')
    if not math.isfinite(score):
        raise Violation(f'score not finite: {score!r}', kind='C04/determinism')
    ref = rm.sampled_score_ref(Yl, Xl, r, c)
    t = rm.tol(Y, X)
    if abs(score - ref) > t:
        raise Violation(f'score {score!r} differs from the sample-only model {ref!r} (quota {q}, floor(r*n)={final}, '
                        f'#values={len(values)}, n={n}, r={r!r}, c={c})', kind='C04/sample-model')
    # history: the caller refills one target buffer in place (same address, same n and ratio, new contents) - the sample is taken
    # from the contents of THIS call
    if 2 <= n <= 20000:
        X2 = X[::-1].copy()
        if not np.array_equal(X2, X):
            rec.cls('target-buffer-refilled-in-place')
            X2l = X2.tolist()
            try:
                bb = wa.call(rid, [dict(base, buf='t', heap=[]), dict(base, X=X2l, buf='t', heap=[])])
            except WorkerDied as e:
                raise Violation(f'estimator call (refilled target buffer) did not terminate normally: {e}', kind='C04/abnormal-termination')
            ref2 = rm.sampled_score_ref(Yl, X2l, r, c)
            s2 = bits_to_float(bb[1])
            if bb[0] != allbits[0]:
                raise Violation(f'score {bits_to_float(bb[0])!r} with the target in a caller-owned buffer differs from {score!r} with a '
                                f'fresh array of the same contents (n={n}, r={r!r}, c={c})', kind='C04/determinism')
            if not math.isfinite(s2) or abs(s2 - ref2) > rm.tol(Y, X2):
                raise Violation(f'after refilling the same target buffer in place with other contents (rows reversed) the score is '
                                f'{s2!r}, the sample-only model of the NEW contents gives {ref2!r}; the previous contents scored '
                                f'{score!r} (n={n}, r={r!r}, c={c})', kind='C04/sample-model')
    # metamorphic: alter the feature outside the sampled rows
    rows = set(rm.sample_rows(Xl, r))
    outside = [i for i in range(n) if i not in rows]
    if outside and not (c and Yl == Xl):
        rec.cls('has-outside-rows')
        rng = np.random.Generator(np.random.PCG64(int(case['alt'])))
        Y2 = list(Yl)
        fresh = max(Yl) + 1
        mode = int(rng.integers(0, 3))
        for j, i in enumerate(outside):
            Y2[i] = fresh + j if mode == 0 else int(rng.integers(0, fresh + 2)) if mode == 1 else fresh
        if c and Y2 == Xl:
            # the alteration must not turn the pair into a self pair (element-wise identical -> correction is switched off)
            for j, i in enumerate(outside):
                Y2[i] = fresh + j
        inside = sorted(rows)
        Y3 = list(Yl)
        pick = inside[int(rng.integers(0, len(inside)))]
        Y3[pick] = fresh
        try:
            b2 = wa.call(rid, [dict(base, Y=Y2, heap=case['heaps'][1]), dict(base, Y=Y3, heap=[])])
        except WorkerDied as e:
            raise Violation(f'estimator call (altered feature) did not terminate normally: {e}', kind='C04/abnormal-termination')
        if b2[0] != allbits[0]:
            raise Violation(f'score changed from {score!r} to {bits_to_float(b2[0])!r} when feature values on rows outside the '
                            f'sample were altered (quota {q}, n={n}, r={r!r}, c={c}, {len(outside)} outside rows)',
                            kind='C04/outside-rows')
        rec.cls('inside-probe-changes-score' if b2[1] != allbits[0] else 'inside-probe-same-score')


ORACLES = {k: oracle for k in ('C04/wide', 'C04/subsampled', 'C04/abnormal-termination', 'C04/determinism', 'C04/sample-model',
                               'C04/outside-rows')}


def run(ctx):
    import glob
    for f in glob.glob(os.path.join(VERIF_DIR, '.cache', 'c04', 'journal-*.log')):
        try:
            os.unlink(f)
        except OSError:
            pass
    clauses = [Clause('C04/subsampled', c04_case, oracle, quick=1600, thorough=60000, quick_shards=8, thorough_shards=16),
               Clause('C04/wide', wide_case, oracle, quick=4, thorough=96, quick_shards=2, thorough_shards=16)]
    drive(ctx, clauses)
    probes = ctx.stats.classes.get('inside-probe-changes-score', 0)
    ctx.extra['inside_probes_that_changed_the_score'] = probes
    if not ctx.violations and ctx.stats.classes.get('has-outside-rows', 0) > 50 and probes == 0:
        raise HarnessError('C04: no inside-sample probe ever changed the score: the metamorphic clause is vacuous')
