"""C13 - data-quality statistics are exact and independent of the batch split."""
from __future__ import annotations

import csv
import itertools
import json
import os
import re
import shutil
import tempfile
from collections import Counter
from fractions import Fraction

import pandas as pd
from hypothesis import strategies as st

from vlib import stubs
from vlib.harness import Clause, Stats, Violation, drive, run_sharded

from outrank import core_ranking as cr
from outrank import task_ranking as tr

ID = 'C13'
RULE = ('Function level: row sequences (1-4 columns, 1-400 rows, values from small pools so they repeat, empty strings, missing symbols, values differing '
        'only by surrounding blanks; column names one of which is a prefix of another, with values whose concatenation with the name '
        'coincides) and a composition of the row count (cut points drawn by Hypothesis; directed class: a value exceeds the rare '
        'threshold in an early batch and reappears later); thresholds 0-5; missing-symbol sets; compute_coverage / '
        'compute_cardinalities / compute_value_counts are driven batch by batch as compute_batch_ranking does, once with the '
        'generated composition and once unsplit. Exhaustive: every composition (2^(n-1)) of sequences of <=9 rows. Pipeline level: '
        'in-process ranking / identify_rare_values tasks on generated files for every batch size in a generated set of divisors of '
        'the row count. Non-trivial = >=2 batches and some value occurs in >=2 batches; rare clause: a pair crosses the threshold '
        'before the last batch. Distinct = digest of the case.')
ASSUMPTIONS = ['value counts: exact while fewer distinct values than --max_unique_hist_constraint were seen; beyond that only '
               '"no over-count, at most capacity values" (C15) and independence of the batch split are asserted',
               'cardinalities stay far below the sketch warm-up capacity (2^18 is the subject of C14); 32-bit hash collisions among the few '
               'generated values are not expected and would be reported',
               'coverage annotation: cases whose exact mean lies within 1e-9 of a rounding tie (x.x5) are excluded and counted']

_LONG_URL = 'https://shop.example.org/catalogue/category/shoes/running/men/page/'      # 68 characters shared by the long values
POOL = ['a', 'b', 'c', 'd', '', '{}', 'NA', '0', '1', 'x y', 'é', 'a ', ' a', '12', '2', 'bc', 'A',
        '.', 'x', 'null', '(null)', 'n.a.', 'n/a.', _LONG_URL + '1?ref=a', _LONG_URL + '2?ref=b', _LONG_URL + '1?ref=c']
# column names one of which is a prefix of another: ('f1','12') / ('f11','2') and ('f','bc') / ('fb','c') concatenate equally
COLNAMES = ['f1', 'f11', 'f', 'fb', 'f2', 'g 1', 'é', 'f12', 'terms AND conditions', 'a AND_REL b']
MISSING_SETS = [',{}', 'NA', ',{},NA', 'a,b', '0', 'NA,{},NA', ',,{}', 'a,a', '', '"NA",x', '.', '(null)', 'n.a.,NA', '{},.']     # symbols are literal strings, also when they look like regex syntax   # '' = only the empty cell is missing; a symbol may carry quotes   # a symbol may be listed twice


@st.composite
def sequence(draw, max_rows=400):
    ncols = draw(st.integers(1, 4))
    n = draw(st.one_of(st.integers(1, 12), st.integers(1, max_rows)))
    cols = {}
    names = draw(st.lists(st.sampled_from(COLNAMES), min_size=ncols, max_size=ncols, unique=True))
    for j in range(ncols):
        k = draw(st.integers(1, 6))
        vals = draw(st.lists(st.sampled_from(POOL), min_size=k, max_size=k, unique=True))
        if n <= 30:
            cols[names[j]] = draw(st.lists(st.sampled_from(vals), min_size=n, max_size=n))
        else:
            seed = draw(st.integers(0, 2**32 - 1))
            cols[names[j]] = {'vals': vals, 'seed': seed, 'rare': draw(st.lists(st.integers(0, n - 1), max_size=4))}
    return {'n': n, 'cols': cols}


def expand(seq):
    import numpy as np
    out = {}
    for name, spec in seq['cols'].items():
        if isinstance(spec, list):
            out[name] = list(spec)
        else:
            rng = np.random.Generator(np.random.PCG64(int(spec['seed'])))
            col = [spec['vals'][i] for i in rng.integers(0, len(spec['vals']), size=seq['n'])]
            for j, pos in enumerate(spec['rare']):
                col[pos] = f'rare{j % 3}'     # values that occur 1-2 times
            out[name] = col
    return out


@st.composite
def function_case(draw):
    seq = draw(sequence())
    n = seq['n']
    ncuts = draw(st.integers(0, min(6, n - 1)))
    cuts = sorted(set(draw(st.lists(st.integers(1, max(1, n - 1)), min_size=ncuts, max_size=ncuts)))) if n > 1 else []
    return {'seq': seq, 'cuts': cuts, 'bound': draw(st.integers(0, 5)), 'missing': draw(st.sampled_from(MISSING_SETS)),
            'hist_bound': draw(st.sampled_from([30_000, 30_000, 1, 2, 3, 5]))}


@st.composite
def long_function_case(draw):
    """66 000 - 90 000 rows in 1-4 mini-batches (a batch longer than 2^16 rows): the same statistics, the same exactness."""
    n = draw(st.integers(66_000, 90_000))
    cols = {}
    for name in ('f1', 'f11'):
        k = draw(st.integers(2, 6))
        vals = draw(st.lists(st.sampled_from(POOL), min_size=k, max_size=k, unique=True))
        cols[name] = {'vals': vals, 'seed': draw(st.integers(0, 2**32 - 1)), 'rare': draw(st.lists(st.integers(0, n - 1), max_size=4))}
    cuts = sorted(set(draw(st.lists(st.integers(1, n - 1), max_size=3))))
    return {'seq': {'n': n, 'cols': cols}, 'cuts': cuts, 'bound': draw(st.integers(0, 5)), 'missing': draw(st.sampled_from(MISSING_SETS)),
            'hist_bound': 30_000}


def batches_of(cols, n, cuts):
    names = list(cols)
    edges = [0] + [c for c in cuts if 0 < c < n] + [n]
    return [pd.DataFrame({k: cols[k][a:b] for k in names}) for a, b in zip(edges[:-1], edges[1:])]


def drive_functions(frames, bound, missing, hist_bound=30_000):
    stubs.reset_globals()
    args = stubs.make_args(rare_value_count_upper_bound=int(bound), missing_value_symbols=missing,
                           max_unique_hist_constraint=hist_bound, task='identify_rare_values')
    cov = []
    for df in frames:
        cov.append(dict(cr.compute_coverage(df, args)))
        cr.compute_cardinalities(df, stubs.PBar(), args.max_unique_hist_constraint)
        cr.compute_value_counts(df, args)
    card = {k: len(v) for k, v in cr.GLOBAL_CARDINALITY_STORAGE.items()}
    hist = {k: dict(v.default_counter) for k, v in cr.GLOBAL_COUNTS_STORAGE.items()}
    rare = dict(cr.GLOBAL_RARE_VALUE_STORAGE)
    return cov, card, hist, rare


def bounded_counter_model(vals, hist_bound):
    """Item-by-item bounded counter (C15): an update is refused once hist_bound distinct values are tracked."""
    c = {}
    for v in vals:
        if len(c) < hist_bound:
            c[v] = c.get(v, 0) + 1
    return c


def check_functions(cols, n, cuts, bound, missing, label, hist_bound=30_000):
    frames = batches_of(cols, n, cuts)
    cov, card, hist, rare = drive_functions(frames, bound, missing, hist_bound)
    miss = set(missing.split(','))
    for bi, (df, c) in enumerate(zip(frames, cov)):
        for name in cols:
            vals = df[name].tolist()
            m = sum(vals.count(x) for x in miss)
            exp = (1 - (m / len(vals))) * 100
            if abs(c[name] - exp) > 1e-9:
                raise Violation(f'{label}: coverage of {name} in batch {bi + 1} is {c[name]!r}, exact value {exp!r} '
                                f'({m} missing of {len(vals)})', kind='C13/coverage')
    for name, vals in cols.items():
        exp_card = len({v for v in vals if v})
        if card.get(name) != exp_card:
            raise Violation(f'{label}: cardinality of {name} reported as {card.get(name)}, {exp_card} distinct non-empty values '
                            f'(batches {[len(f) for f in frames]})', kind='C13/cardinality')
        true_hist = dict(Counter(vals))
        got_hist = hist.get(name) or {}
        if len(true_hist) < hist_bound:
            if got_hist != true_hist:
                raise Violation(f'{label}: value counts of {name} are {got_hist}, exact {true_hist} (capacity {hist_bound} not reached); '
                                f'batches {[len(f) for f in frames]}', kind='C13/histogram')
        elif len(got_hist) > hist_bound or any(got_hist[k] > true_hist.get(k, 0) for k in got_hist):
            raise Violation(f'{label}: value counts of {name} are {got_hist}: more than {hist_bound} tracked values or an over-count '
                            f'(exact {true_hist})', kind='C13/histogram')
    exp_rare = {}
    for name, vals in cols.items():
        for v, k in Counter(vals).items():
            if k <= bound:
                exp_rare[(name, v)] = k
    if rare != exp_rare:
        extra = {k: v for k, v in rare.items() if exp_rare.get(k) != v}
        lack = {k: v for k, v in exp_rare.items() if k not in rare}
        raise Violation(f'{label}: rare-value report (count <= {bound}) has wrong entries {dict(list(extra.items())[:3])}, lacks '
                        f'{dict(list(lack.items())[:3])}; batches {[len(f) for f in frames]}', kind='C13/rare')
    return hist


def oracle_functions(case, rec):
    cols = expand(case['seq'])
    n = case['seq']['n']
    cuts = [c for c in case['cuts'] if 0 < c < n]
    edges = [0] + cuts + [n]
    multi = any(len({bi for bi, (a, b) in enumerate(zip(edges[:-1], edges[1:])) if v in vals[a:b]}) >= 2
                for vals in cols.values() for v in set(vals))
    crossing = False
    for vals in cols.values():
        run = Counter()
        for a, b in zip(edges[:-2], edges[1:-1]):
            run.update(vals[a:b])
            if any(k > case['bound'] and v in vals[b:] for v, k in run.items()):
                crossing = True
    rec.nt(len(edges) > 2 and multi, key=case)
    rec.cls('batches=%s' % (len(edges) - 1 if len(edges) - 1 < 4 else '4+'))
    if crossing:
        rec.cls('rare:pair-retired-then-reappears')
    hb = int(case.get('hist_bound', 30_000))
    if hb < 30_000:
        rec.cls('histogram-capacity-reached' if any(len(set(v)) >= hb for v in cols.values()) else 'histogram-capacity-small')
    h_split = check_functions(cols, n, cuts, case['bound'], case['missing'], 'generated split', hb)
    h_whole = check_functions(cols, n, [], case['bound'], case['missing'], 'unsplit', hb)
    if h_split != h_whole:
        name = next(k for k in h_whole if h_split.get(k) != h_whole[k])
        raise Violation(f'value counts of {name} depend on the batch split: {h_split.get(name)} for cuts {cuts}, {h_whole[name]} unsplit '
                        f'(counter capacity {hb})', kind='C13/histogram-split')


# ---- exhaustive compositions -----------------------------------------------------------------------------

_SEED = [1]


def _exhaustive(shard):
    import numpy as np
    rng = np.random.Generator(np.random.PCG64(_SEED[0] * 100003 + shard))
    evals = nt = 0
    for rep in range(6):
        n = int(rng.integers(2, 10))
        cols = {'f1': [['12', 'b', '', 'a ', 'a'][int(i)] for i in rng.integers(0, 5, size=n)],
                'f11': [['2', '2', 'y', '{}'][int(i)] for i in rng.integers(0, 4, size=n)]}
        bound = int(rng.integers(0, 3))
        hb = [30_000, 2, 3][rep % 3]
        whole = None
        for r in range(0, n):
            for cuts in itertools.combinations(range(1, n), r):
                try:
                    h = check_functions(cols, n, list(cuts), bound, ',{}', 'composition', hb)
                    if whole is None:
                        whole = h      # r == 0: the unsplit composition comes first
                    elif h != whole:
                        raise Violation(f'value counts depend on the batch split: {h} for cuts {list(cuts)}, {whole} unsplit '
                                        f'(counter capacity {hb})', kind='C13/histogram-split')
                except Violation as v:
                    return evals, nt, {'seq': {'n': n, 'cols': cols}, 'cuts': list(cuts), 'bound': bound, 'missing': ',{}',
                                       'hist_bound': hb}, str(v)
                evals += 1
                nt += 1 if cuts else 0
    return evals, nt, None, None


# ---- pipeline level ---------------------------------------------------------------------------------------

@st.composite
def pipeline_case(draw):
    rows = draw(st.sampled_from([12, 24, 36, 48, 60]))
    divisors = [d for d in range(2, rows + 1) if rows % d == 0]
    ms = draw(st.lists(st.sampled_from(divisors), min_size=2, max_size=3, unique=True))
    ncols = draw(st.integers(1, 3))
    cols = {}
    colset_choice = draw(st.integers(0, 1))
    for j in range(ncols):
        k = draw(st.integers(1, 5))
        vals = draw(st.lists(st.sampled_from(['a', 'b', 'c', 'd', '', '{}', 'e f', 'a ', ' a', '12', '2', 'x\ty', '"q"', 'say "hi"']), min_size=k, max_size=k,
                             unique=True))      # free text may hold a tab or quotes
        cols[[['f1', 'f11', 'f2'], ['terms AND conditions', 'f11', 'x AND_REL y']][colset_choice][j]] = {'vals': vals, 'seed': draw(st.integers(0, 2**32 - 1)), 'rare': draw(st.lists(st.integers(0, rows - 1), max_size=3))}
    cols['label'] = {'vals': ['0', '1'], 'seed': draw(st.integers(0, 2**32 - 1)), 'rare': []}
    case = {'seq': {'n': rows, 'cols': cols}, 'ms': sorted(ms), 'task': draw(st.sampled_from(['ranking', 'identify_rare_values'])),
            'bound': draw(st.sampled_from([0, 0, 1, 2, 4])), 'hist_bound': draw(st.sampled_from([2, 3, 30_000]))}
    if colset_choice == 0 and draw(st.integers(0, 3)) == 0:
        # a described csv source (dataset_desc.json) that types the first column as float; its cells are numerals in several spellings,
        # zero, and missing symbols - the statistics are about the cells as they stand in the file
        first = next(iter(cols))
        k = draw(st.integers(2, 6))
        cols[first]['vals'] = draw(st.lists(st.sampled_from(['12', '2', '012', '2.0', '0', '', '{}', '1e1', '0.0', '7']), min_size=k, max_size=k, unique=True))
        case['typed'] = [first]
    # names with or without the "(cardinality; coverage)" annotation: the bookkeeping behind the other outputs must not depend on it
    case['annot'] = draw(st.sampled_from([True, True, False]))
    if colset_choice == 0 and ncols == 3 and case['task'] == 'ranking' and draw(st.booleans()):
        # constructed interaction features under a binding per-batch budget: each exists in some mini-batches only
        case['order'] = 2
        case['cap'] = draw(st.sampled_from([1, 2, 2, 4]))
    return case


def run_task(cols, names, m, case, tmp):
    out = os.path.join(tmp, f'out{m}')
    args = stubs.make_args(task=case['task'], minibatch_size=int(m), subsampling=1, data_path=os.path.join(tmp, 'data'),
                           data_source='ob-csv' if case.get('typed') else 'csv-raw', output_folder=out, heuristic='MI-numba-randomized',
                           rare_value_count_upper_bound=int(case['bound']), max_unique_hist_constraint=int(case['hist_bound']),
                           include_cardinality_in_feature_names='False' if case.get('annot') is False else 'True',
                           **({'interaction_order': int(case['order']), 'combination_number_upper_bound': int(case['cap'])}
                              if case.get('order') else {}))
    stubs.reset_globals()
    try:
        tr.outrank_task_conduct_ranking(args)
    except SystemExit:
        pass
    return out


def oracle_pipeline(case, rec):
    cols = expand(case['seq'])
    names = list(cols)
    n = case['seq']['n']
    rec.nt(True, key=case)
    rec.cls('task=' + case['task'])
    tmp = tempfile.mkdtemp(prefix='c13-')
    old = os.getcwd()
    orig_pool = tr.Pool
    try:
        os.chdir(tmp)
        os.makedirs('data')
        with open('data/data.csv', 'w', encoding='latin1', newline='') as fh:
            w = csv.writer(fh, lineterminator='\n')
            w.writerow(names)
            for i in range(n):
                w.writerow([cols[c][i] for c in names])
        if case.get('typed'):
            with open('data/dataset_desc.json', 'w') as fh:
                json.dump({'data_features': [{'name': c, 'type': 'float' if c in case['typed'] else 'str'} for c in names]}, fh)
            rec.cls('described-source-with-float-column')
        tr.Pool = lambda k=None: stubs.InlinePool()
        miss = {'', '{}'}
        for m in case['ms']:
            out = run_task(cols, names, m, case, tmp)
            if case['task'] == 'ranking':
                ranks = pd.read_csv(os.path.join(out, 'pairwise_ranks.tsv'), sep='\t', keep_default_na=False, na_values=[])
                annotated = set(ranks.FeatureA) | set(ranks.FeatureB)
                if case.get('annot') is False:
                    rec.cls('plain-names')
                if case.get('order'):
                    rec.cls('interaction-features-under-binding-cap')
                    for full in sorted(annotated):
                        mm = re.fullmatch(r'(.* AND .*)-\((\d+); (-?\d+)\)', full)
                        if mm and int(mm.group(3)) != 100:
                            # a constructed interaction value is a digest, never a missing-value symbol: 100 % in every batch it exists in
                            raise Violation(f'minibatch_size {m}: interaction feature annotated {full!r}; its values are never missing, so '
                                            f'the mean of its per-batch coverage percentages is 100', kind='C13/annotation')
                for c in (names if case.get('annot') is not False else []):
                    card = len({v for v in cols[c] if v})
                    covs = []
                    for a in range(0, n, m):
                        part = cols[c][a:a + m]
                        covs.append((1 - Fraction(sum(part.count(x) for x in miss), len(part))) * 100)
                    mean = sum(covs) / len(covs)
                    scaled = mean * 10
                    if abs((scaled - int(scaled)) - Fraction(1, 2)) < Fraction(1, 10**9):
                        rec.cls('excluded:coverage-rounding-tie')
                        continue
                    exp = f'{c}-({card}; {int(round(float(mean), 1))})'
                    if exp not in annotated:
                        got = sorted(x for x in annotated if x.startswith(c + '-('))
                        if case.get('order') and not got:
                            continue      # under a binding budget a raw column may never be part of a ranked pair
                        raise Violation(f'minibatch_size {m}: feature {c} is annotated {got}, exact statistics give {exp!r} '
                                        f'(cardinality; mean per-batch coverage)', kind='C13/annotation')
                with open(os.path.join(out, 'value_repetitions.json')) as fh:
                    rep = json.load(fh)
                for c in names:
                    cnt = Counter(cols[c])
                    if len(cnt) >= case['hist_bound']:
                        continue      # the bounded counter stops tracking new values (C15); not exact by design
                    exp = {str(x): sum(1 for v in cnt.values() if v > x) for x in [0] + [10 ** e for e in range(6)]}
                    if rep.get(c) != exp:
                        raise Violation(f'minibatch_size {m}: value_repetitions.json for {c} is {rep.get(c)}, exact {exp}',
                                        kind='C13/repetitions')
            else:
                exp_rows = {(c, v): k for c in names for v, k in Counter(cols[c]).items() if k <= case['bound']}
                path = os.path.join(out, 'rare_values.tsv')
                if not os.path.exists(path):
                    if not exp_rows and KNOWN_EMPTY[0]:
                        rec.cls('excluded:known-rare-report-empty')
                        continue
                    raise Violation(f'minibatch_size {m}: rare_values.tsv was not written ({len(exp_rows)} rare pairs expected)',
                                    kind='C13/rare-report-empty' if not exp_rows else 'C13/rare-report')
                with open(path, newline='', encoding='utf-8') as fh:
                    table = list(csv.reader(fh, delimiter='\t'))
                bad = [r for r in table[1:] if len(r) != 3]
                if bad or not table or len(table[0]) != 3:
                    raise Violation(f'minibatch_size {m}: rare_values.tsv is not a three-column tab-separated table: header {table[:1]}, '
                                    f'malformed rows {bad[:3]}', kind='C13/rare-report')
                hdr = table[0]
                ci = {nm: hdr.index(nm) for nm in ('Namespace', 'value', 'Count')} if all(nm in hdr for nm in ('Namespace', 'value', 'Count')) else None
                if ci is None:
                    raise Violation(f'minibatch_size {m}: rare_values.tsv has header {hdr}', kind='C13/rare-report')
                got_rows = {(r[ci['Namespace']], r[ci['value']]): int(r[ci['Count']]) for r in table[1:]}
                if got_rows != exp_rows:
                    extra = {k: v for k, v in got_rows.items() if exp_rows.get(k) != v}
                    lack = {k: v for k, v in exp_rows.items() if k not in got_rows}
                    raise Violation(f'minibatch_size {m}: rare_values.tsv (count <= {case["bound"]}) has wrong rows '
                                    f'{dict(list(extra.items())[:3])}, lacks {dict(list(lack.items())[:3])}', kind='C13/rare-report')
    finally:
        tr.Pool = orig_pool
        os.chdir(old)
        shutil.rmtree(tmp, ignore_errors=True)


@st.composite
def long_history_case(draw):
    """Many mini-batches that each contain the same few thousand distinct values: the per-batch distinct counts add up beyond
    the sketch's warm-up capacity (2^18) while the true cardinality stays far below it."""
    k = draw(st.integers(2500, 6000))
    return {'k': k, 'batches': (2**18 // k) + draw(st.integers(2, 6)), 'seed': draw(st.integers(0, 2**32 - 1))}


def oracle_long_history(case, rec):
    import numpy as np
    k, nb = int(case['k']), int(case['batches'])
    rng = np.random.Generator(np.random.PCG64(int(case['seed'])))
    values = [f'id{i}' for i in range(k)]
    stubs.reset_globals()
    args = stubs.make_args()
    for b in range(nb):
        order = rng.permutation(k).tolist()
        df = pd.DataFrame({'f1': [values[i] for i in order], 'label': [str(i % 2) for i in order]})
        cr.compute_cardinalities(df, stubs.PBar(), args.max_unique_hist_constraint)
    card = {c: len(v) for c, v in cr.GLOBAL_CARDINALITY_STORAGE.items()}
    rec.nt(True, key=case)
    rec.cls('long-history')
    if card.get('f1') != k or card.get('label') != 2:
        raise Violation(f'after {nb} mini-batches that each contain the same {k} distinct values the cardinality is reported as '
                        f'{card}, exact {{f1: {k}, label: 2}} (far below the sketch warm-up capacity)', kind='C13/cardinality')
    hist = cr.GLOBAL_COUNTS_STORAGE['f1'].default_counter
    if len(hist) != k or set(hist.values()) != {nb}:
        raise Violation(f'value counts after {nb} batches: {len(hist)} values tracked, counts {sorted(set(hist.values()))[:5]}, '
                        f'exact: {k} values x {nb}', kind='C13/histogram')


@st.composite
def big_counts_case(draw):
    """A ranking run over more than 10^5 rows in which one value of a column occurs more than 100 000 times (a dominant country /
    device bucket): the top bucket of the value-repetition histogram."""
    return {'rows': draw(st.integers(110_000, 140_000)), 'm': draw(st.sampled_from([40_000, 25_000, 60_000])),
            'rest': draw(st.integers(3, 9)), 'seed': draw(st.integers(0, 2**32 - 1))}


def oracle_big_counts(case, rec):
    import numpy as np
    n, m = int(case['rows']), int(case['m'])
    rng = np.random.Generator(np.random.PCG64(int(case['seed'])))
    k = int(case['rest'])
    country = np.where(rng.random(n) < 0.93, 'US', np.char.add('c', rng.integers(0, k, size=n).astype(str)))
    if int((country == 'US').sum()) <= 100_000:
        country[:] = 'US'
    device = np.char.add('d', rng.integers(0, 4, size=n).astype(str))
    label = rng.integers(0, 2, size=n).astype(str)
    cols = {'country': country.tolist(), 'device': device.tolist(), 'label': label.tolist()}
    rec.nt(True, key=case)
    rec.cls('value-count>100000')
    tmp = tempfile.mkdtemp(prefix='c13b-')
    old = os.getcwd()
    orig_pool = tr.Pool
    try:
        os.chdir(tmp)
        os.makedirs('data')
        with open('data/data.csv', 'w') as fh:
            fh.write('country,device,label\n')
            fh.write('\n'.join(','.join(r) for r in zip(cols['country'], cols['device'], cols['label'])) + '\n')
        tr.Pool = lambda k_=None: stubs.InlinePool()
        out = run_task(cols, list(cols), m, {'task': 'ranking', 'bound': 1, 'hist_bound': 30_000}, tmp)
        with open(os.path.join(out, 'value_repetitions.json')) as fh:
            rep = json.load(fh)
    finally:
        tr.Pool = orig_pool
        os.chdir(old)
        shutil.rmtree(tmp, ignore_errors=True)
    consumed = (n // m) * m + (n % m if n % m > 1024 else 0)
    for c in cols:
        cnt = Counter(cols[c][:consumed])
        exp = {str(x): sum(1 for v in cnt.values() if v > x) for x in [0] + [10 ** e for e in range(6)]}
        if rep.get(c) != exp:
            raise Violation(f'value_repetitions.json for {c} is {rep.get(c)}, exact {exp} over the {consumed} consumed rows '
                            f'(largest count {max(cnt.values())})', kind='C13/repetitions')


KNOWN_EMPTY = [False]
ORACLES = {'C13/long-functions': oracle_functions, 'C13/big-counts': oracle_big_counts, 'C13/long-history': oracle_long_history, 'C13/functions': oracle_functions, 'C13/pipeline': oracle_pipeline, 'C13/compositions': oracle_functions}
for _k in ('coverage', 'cardinality', 'histogram', 'histogram-split', 'rare'):
    ORACLES['C13/' + _k] = oracle_functions
for _k in ('annotation', 'repetitions', 'rare-report', 'rare-report-empty'):
    ORACLES['C13/' + _k] = oracle_pipeline


def run(ctx):
    KNOWN_EMPTY[0] = ctx.known('rare-report-empty')
    _SEED[0] = ctx.seed
    res = run_sharded(_exhaustive, 8 if ctx.tier == 'quick' else 48)
    tot = totnt = 0
    first_fail = None
    for evals, nt, fail, detail in res:
        tot += evals
        totnt += nt
        if fail is not None and (first_fail is None or len(str(fail)) < len(str(first_fail[0]))):
            first_fail = (fail, detail)
    if first_fail is not None:
        fail, detail = first_fail
        r = ctx.run_oracle('C13/compositions', oracle_functions, fail, Stats())
        ctx.report(r[0] if r else 'C13/compositions', fail, r[1] if r else detail)
    ctx.stats.evaluations += tot
    ctx.stats.nontrivial_count_only += totnt
    ctx.stats.per_kind['C13/compositions'] = {'evaluations': tot, 'nontrivial': totnt}
    ctx.extra['exhaustive_scope'] = f'every composition of {6 * len(res)} row sequences of 2-9 rows: {tot} (sequence, composition) pairs'
    drive(ctx, [
        Clause('C13/functions', function_case, oracle_functions, quick=500, thorough=100000, quick_shards=8),
        Clause('C13/long-functions', long_function_case, oracle_functions, quick=2, thorough=32, quick_shards=2, thorough_shards=16),
        Clause('C13/long-history', long_history_case, oracle_long_history, quick=2, thorough=32, quick_shards=2, thorough_shards=16),
        Clause('C13/pipeline', pipeline_case, oracle_pipeline, quick=64, thorough=4000, quick_shards=16),
        Clause('C13/big-counts', big_counts_case, oracle_big_counts, quick=1, thorough=12, quick_shards=1, thorough_shards=12),
    ])
