"""C11 - feature construction is additive, row-aligned and follows its stated rule."""
from __future__ import annotations

import itertools

import numpy as np
import pandas as pd
from hypothesis import strategies as st

from vlib import stubs
from vlib.harness import Clause, Violation, drive

from outrank import core_ranking as cr

ID = 'C11'
RULE = ('String frames with a RangeIndex (as every caller builds them): two multi-value columns (cells are "-" / ","-delimited token '
        'lists incl. empty tokens, repeated tokens and missing symbols), three plain columns over small value pools (values may '
        'contain "&", "AND", "-", spaces, be empty), one numeric-text column and the label; 1-60 rows. Clauses: each constructor '
        'called directly (multi-value expansion with 1-2 features, sub-feature mappings with 1-3 "->" / "<->" specs chained with ";", '
        'noise controls) and the whole chain through compute_batch_ranking with a generated subset of flags (transformers, '
        'multi-value, sub-features, interaction order 2, 3MR relation features, noise), the frame handed to the scorer being captured '
        'by a spy on mixed_rank_graph. Non-trivial = >=2 flags active, or a multi-value cell with >=2 tokens, or a selector with >=2 '
        'values. Distinct = digest of the case.')
ASSUMPTIONS = ['frames with a non-default index are outside the callers contract and not generated',
               'content of interaction / transformed columns is decided by C10 / C12; here only additivity and row alignment']

TOKENS = ['a', 'b', 'c', 'ab', '1', '2', 'x y', 'A', 'c++', '1.5', '15', 'a?', '[b]', 'a|b', '(1', '$']     # incl. tokens that are regex syntax
PLAIN = ['', 'u', 'v', 'w', 'u&v', 'uANDv', 'AND', '1', '0', 'x-y', ' ', 'é']
MISSING_SETS = [',{}', 'NA,{}', '-1', 'a', ',{},b']


@st.composite
def mv_cell(draw):
    toks = draw(st.lists(st.one_of(st.sampled_from(TOKENS), st.sampled_from(['', '{}', 'NA', '-1'])), min_size=0, max_size=4))
    seps = [draw(st.sampled_from(['-', ','])) for _ in range(max(0, len(toks) - 1))]
    out = ''
    for i, t in enumerate(toks):
        out += t
        if i < len(seps):
            out += seps[i]
    return out


@st.composite
def frame(draw):
    n = draw(st.one_of(st.integers(1, 60), st.integers(1, 60), st.integers(46, 60)))
    cols = {}
    for name in ('mv0', 'mv1'):
        cells = draw(st.lists(mv_cell(), min_size=1, max_size=5))
        cols[name] = draw(st.lists(st.sampled_from(cells), min_size=n, max_size=n))
    if n >= 30 and draw(st.integers(0, 7)) == 0:
        # a tag-list column with 65-100 distinct tokens in one batch (more than any machine word has bits), 1-4 tokens per row
        nt = draw(st.integers(65, 100))
        seed = draw(st.integers(0, 10**6))
        cols['mv0'] = ['-'.join(f't{(seed + 7 * i + 13 * j * j) % nt:03d}' for j in range(1 + (i + seed) % 4)) for i in range(n)]
        cols['mv0'][0] = '-'.join(f't{j:03d}' for j in range(nt))       # one row carrying every token
    wide = n >= 40 and draw(st.integers(0, 3)) == 0      # many distinct values: > 128 (first, second) combinations for <->
    confusable = not wide and n >= 4 and draw(st.integers(0, 5)) == 0
    for name in ('a', 'b', 'c'):
        if wide and name in ('a', 'b'):
            # 11-16 values per selector column (> 128 pairs), now and then 33-45 (> 1024 pairs: more than one block of any blocked scheme)
            kk = draw(st.integers(11, 16)) if draw(st.integers(0, 1)) or n < 46 else draw(st.integers(33, 45))
            seq = draw(st.permutations(list(range(kk))))
            cols[name] = [f'{name}{seq[(i * (3 if name == "a" else 5) + i // kk) % kk]}' for i in range(n)]
            continue
        if confusable and name in ('a', 'b'):
            # value pairs whose AND-joined texts coincide: ('uANDv','w') / ('u','vANDw'), ('uAND','v') / ('u','ANDv')
            vals = ['u', 'uANDv', 'uAND'] if name == 'a' else ['vANDw', 'w', 'v', 'ANDv']
            cols[name] = draw(st.lists(st.sampled_from(vals), min_size=n, max_size=n))
            continue
        k = draw(st.integers(1, 4))
        vals = draw(st.lists(st.sampled_from(PLAIN), min_size=k, max_size=k, unique=True))
        cols[name] = draw(st.lists(st.sampled_from(vals), min_size=n, max_size=n))
    nums = draw(st.lists(st.sampled_from(['0', '1', '2.5', '10', '100', '', '7', '0.25', '33', '"0.5"', '"3"', '""']), min_size=2, max_size=6))
    cols['num'] = draw(st.lists(st.sampled_from(nums), min_size=n, max_size=n))
    cols['label'] = draw(st.lists(st.sampled_from(['0', '1']), min_size=n, max_size=n))
    order = draw(st.permutations(list(cols)))
    return {'n': n, 'cols': {k: cols[k] for k in order}}


def sub_specs():
    names = ['a', 'b', 'c', 'mv0']
    # a feature is never mapped onto itself (meaningless, and the code selects the two columns by name)
    one = st.tuples(st.permutations(names), st.sampled_from(['->', '<->'])).map(lambda t: f'{t[0][0]}{t[1]}{t[0][1]}')
    return st.lists(one, min_size=1, max_size=3).map(';'.join)


@st.composite
def case_multivalue(draw):
    return {'frame': draw(frame()), 'features': draw(st.sampled_from(['mv0', 'mv1', 'mv0;mv1', 'mv1;mv0', 'a'])),
            'missing': draw(st.sampled_from(MISSING_SETS)), 'earlier': draw(st.sampled_from([0, 0, 1, 3]))}


@st.composite
def case_multivalue_long(draw):
    """A mini-batch of the default length and beyond (8 200 - 17 000 rows) with a multi-value column: the indicator of a token is '1'
    exactly on the rows whose cell contains it, whatever the row number."""
    n = draw(st.integers(8200, 17000))
    seed = draw(st.integers(0, 10**6))
    toks = ['red', 'green', 'blue', 'a', 'b', '1']
    mv = ['-'.join(toks[(seed + i * (j + 3)) % len(toks)] for j in range(1 + (i * 7 + seed) % 3)) if (i + seed) % 11 else '' for i in range(n)]
    cols = {'mv0': mv, 'mv1': ['a'] * n, 'a': [f'u{i % 5}' for i in range(n)], 'b': ['v'] * n, 'c': ['w'] * n, 'num': ['1'] * n,
            'label': [str(i % 2) for i in range(n)]}
    return {'frame': {'n': n, 'cols': cols}, 'features': 'mv0', 'missing': draw(st.sampled_from([',{}', 'NA,{}'])), 'earlier': 0}


@st.composite
def case_sub(draw):
    fr = draw(frame())
    mapping = draw(sub_specs())
    if (max(len(set(fr['cols'][c])) for c in ('a', 'b')) > 10 or 'uANDv' in fr['cols']['a'] or 'uAND' in fr['cols']['a']) and draw(st.booleans()):
        mapping = draw(st.sampled_from(['a<->b', 'b<->a', 'a<->b;c->a']))      # > 128 (first, second) value combinations / confusable joins
    if min(len(set(fr['cols'][c])) for c in ('a', 'b')) > 32:
        mapping = draw(st.sampled_from(['a<->b', 'b<->a']))       # more than 1024 two-sided value combinations
    return {'frame': fr, 'mapping': mapping, 'earlier': draw(st.sampled_from([0, 0, 1, 3]))}


@st.composite
def case_noise(draw):
    return {'frame': draw(frame()), 'np_seed': draw(st.integers(0, 2**31))}


@st.composite
def case_chain(draw):
    flags = {
        'transformers': draw(st.sampled_from(['none', 'none', 'minimal', 'default'])),
        'multivalue': draw(st.sampled_from(['False', 'False', 'mv0', 'mv0;mv1'])),
        'sub': draw(st.one_of(st.just('False'), sub_specs())),
        'order': draw(st.sampled_from([1, 1, 2, 3])),
        'noise': draw(st.sampled_from(['False', 'True'])),
        'heuristic': draw(st.sampled_from(['MI-numba-randomized', 'MI-numba-randomized', 'MI-numba-3mr', 'Constant'])),
        'cap': draw(st.sampled_from([3, 2**15])),
    }
    if (flags['multivalue'] != 'False' or flags['sub'] != 'False') and flags['order'] > 2:
        flags['order'] = 2    # keeps the interaction space (built eagerly by the code) small
    if '3mr' in flags['heuristic']:
        flags['order'] = 1    # 3MR adds a relation feature per column pair: quadratic in the constructed columns
        if flags['multivalue'] != 'False' and flags['sub'] != 'False':
            flags['sub'] = 'False'
    if flags['order'] > 2 and flags['transformers'] != 'none':
        flags['order'] = 2
    fr = draw(frame())
    if max(len(set(fr['cols'][c])) for c in ('a', 'b')) > 10:
        # many-valued selector columns already give > 128 two-sided pair columns: keep the rest of the chain small
        flags['order'] = 1
        flags['heuristic'] = 'MI-numba-randomized' if flags['heuristic'] != 'Constant' else 'Constant'
        if flags['sub'] != 'False' and flags['sub'].count(';') >= 1:
            flags['sub'] = flags['sub'].split(';')[0]
    if len(set(fr['cols']['mv0'])) > 12:
        # the many-token column: 65-100 indicator columns, or one sub-feature per distinct cell - keep the rest of the chain
        # linear in the number of columns
        flags['order'] = 1
        flags['heuristic'] = 'Constant' if flags['heuristic'] == 'Constant' else 'MI-numba-randomized'
        if 'mv0' in flags['sub'] or flags['multivalue'] != 'False':
            flags['sub'] = 'False'
        flags['transformers'] = 'none'
    return {'frame': fr, 'flags': flags, 'missing': draw(st.sampled_from(MISSING_SETS)),
            'np_seed': draw(st.integers(0, 2**31))}


# ---- predicates -----------------------------------------------------------------------------------

def to_df(fr):
    return pd.DataFrame({k: list(v) for k, v in fr['cols'].items()})


def check_additive(before, after, what):
    n = len(before)
    if list(after.columns[:before.shape[1]]) != list(before.columns):
        raise Violation(f'{what}: original columns are not a prefix of the result: {list(after.columns)[:before.shape[1] + 2]}',
                        kind='C11/additive')
    if len(after) != n:
        raise Violation(f'{what}: row count changed from {n} to {len(after)}', kind='C11/rows')
    head = after.iloc[:, :before.shape[1]]
    if not head.reset_index(drop=True).equals(before.reset_index(drop=True)) or list(after.index) != list(before.index):
        raise Violation(f'{what}: original values or row order changed', kind='C11/additive')
    cols = list(after.columns)
    if len(set(cols)) != len(cols):
        raise Violation(f'{what}: duplicate column names {sorted(c for c in set(cols) if cols.count(c) > 1)[:3]}', kind='C11/additive')
    for c in cols[before.shape[1]:]:
        col = after[c]
        if len(col) != n or int(col.isna().sum()) != 0:
            raise Violation(f'{what}: new column {c!r} does not have exactly one value per row ({int(col.isna().sum())} missing of {n})',
                            kind='C11/rows')


def tokens_of(cell):
    return set(cell.replace(',', '-').split('-'))


def check_multivalue(before, after, features, missing_spec):
    missing = set(missing_spec.split(','))
    new = [c for c in after.columns[before.shape[1]:] if str(c).startswith('MULTIEX-') and ' AND' not in str(c)]
    expected = {}
    for f in dict.fromkeys(features.split(';')):
        cells = before[f].tolist()
        all_tokens = set().union(*[tokens_of(x) for x in cells]) - missing
        for tok in all_tokens:
            expected[f'MULTIEX-{f}-{tok}'] = ['1' if tok in tokens_of(x) else '' for x in cells]
    if set(new) != set(expected):
        raise Violation(f'multi-value expansion of {features!r}: missing indicator columns {sorted(set(expected) - set(new))[:4]}, '
                        f'unexpected {sorted(set(new) - set(expected))[:4]} (missing symbols {sorted(missing)})', kind='C11/multivalue')
    for c in new:
        got = after[c].tolist()
        if got != expected[c]:
            i = next(j for j, (g, e) in enumerate(zip(got, expected[c])) if g != e)
            f = c.split('-')[1]
            raise Violation(f'{c!r} row {i}: indicator is {got[i]!r} but the cell {before[f].iloc[i]!r} '
                            f'{"contains" if expected[c][i] else "does not contain"} the token', kind='C11/multivalue')


def sub_expectations(before, mapping):
    """-> dict name -> list of acceptable columns (several when different rule instances share a name)."""
    exp = {}
    for spec in mapping.split(';'):
        if '<->' in spec:
            a, b = spec.split('<->')
            av, bv = before[a].tolist(), before[b].tolist()
            for va, vb in itertools.product(dict.fromkeys(av), dict.fromkeys(bv)):
                name = f'SUBFEATURE|{a}|{b}-{va}&{vb}'
                exp.setdefault(name, []).append(['1' if (x, y) == (va, vb) else '0' for x, y in zip(av, bv)])
        else:
            a, b = spec.split('->')
            av, bv = before[a].tolist(), before[b].tolist()
            for vb in dict.fromkeys(bv):
                name = 'SUBFEATURE-' + a + '&' + vb
                exp.setdefault(name, []).append([x + 'AND' + y if y == vb else '' for x, y in zip(av, bv)])
    return exp


def check_sub(before, after, mapping):
    new = [c for c in after.columns[before.shape[1]:] if str(c).startswith('SUBFEATURE') and ' AND ' not in str(c)
           and ' AND_REL ' not in str(c)]
    exp = sub_expectations(before, mapping)
    if set(new) != set(exp):
        raise Violation(f'sub-features {mapping!r}: missing {sorted(set(exp) - set(new))[:4]}, unexpected {sorted(set(new) - set(exp))[:4]}',
                        kind='C11/subfeature')
    for c in new:
        got = after[c].tolist()
        if got not in exp[c]:
            e = exp[c][-1]
            i = next(j for j, (g, x) in enumerate(zip(got, e)) if g != x)
            raise Violation(f'{c!r} row {i}: value {got[i]!r}, rule gives {e[i]!r} (mapping {mapping!r})', kind='C11/subfeature')


def check_controls(before, after):
    new = [c for c in after.columns[before.shape[1]:] if str(c).startswith('CONTROL-') and ' AND' not in str(c)]
    if 'CONTROL-target' not in new:
        raise Violation(f'no CONTROL-target column among {new}', kind='C11/control')
    if after['CONTROL-target'].tolist() != before['label'].tolist():
        raise Violation('CONTROL-target does not replicate the label column', kind='C11/control')


class _Log:
    def info(self, *a, **k):
        pass
    warning = error = debug = info


# ---- oracles ---------------------------------------------------------------------------------------

def _nt_frame(fr):
    return any(len(tokens_of(x)) >= 2 for x in fr['cols']['mv0'] + fr['cols']['mv1'])


def _earlier_batch(df, seed):
    """An earlier mini-batch of the same columns with other contents (rows reversed, values rotated between rows): constructing its
    features first must leave no trace in what is built for the batch under test."""
    prev = df.iloc[::-1].reset_index(drop=True).copy()
    for j, c in enumerate(prev.columns):
        k = (seed + j) % max(1, len(prev))
        prev[c] = prev[c].tolist()[k:] + prev[c].tolist()[:k]
    return prev


def oracle_multivalue(case, rec):
    df = to_df(case['frame'])
    before = df.copy(deep=True)
    args = stubs.make_args(explode_multivalue_features=case['features'], missing_value_symbols=case['missing'])
    if case.get('earlier'):
        cr.compute_expanded_multivalue_features(_earlier_batch(df, int(case['earlier'])), None, args, stubs.PBar())
        rec.cls('after-an-earlier-batch')
    out = cr.compute_expanded_multivalue_features(df, None, args, stubs.PBar())
    rec.nt(_nt_frame(case['frame']), key=case)
    if not df.equals(before):
        raise Violation('multi-value expansion modified its input frame', kind='C11/additive')
    check_additive(before, out, 'multi-value expansion')
    check_multivalue(before, out, case['features'], case['missing'])


def oracle_sub(case, rec):
    df = to_df(case['frame'])
    before = df.copy(deep=True)
    args = stubs.make_args(subfeature_mapping=case['mapping'])
    if case.get('earlier'):
        cr.compute_subfeatures(_earlier_batch(df, int(case['earlier'])), None, args, stubs.PBar())
        rec.cls('after-an-earlier-batch')
    out = cr.compute_subfeatures(df, None, args, stubs.PBar())
    sel = [spec.split('->')[-1] for spec in case['mapping'].split(';')]
    rec.nt(any(len(set(case['frame']['cols'][s])) >= 2 for s in sel), key=case)
    rec.cls('two-sided' if '<->' in case['mapping'] else 'one-sided-only')
    if not df.equals(before):
        raise Violation('sub-feature construction modified its input frame', kind='C11/additive')
    check_additive(before, out, 'sub-features')
    check_sub(before, out, case['mapping'])


def oracle_noise(case, rec):
    df = to_df(case['frame'])
    before = df.copy(deep=True)
    np.random.seed(int(case['np_seed']) % (2**32))
    out = cr.include_noisy_features(df, None, stubs.make_args())
    rec.nt(len(df) >= 2, key=case)
    check_additive(before, out, 'noise controls')
    check_controls(before, out)


def oracle_chain(case, rec):
    fl = case['flags']
    df = to_df(case['frame'])
    before = df.copy(deep=True)
    args = stubs.make_args(transformers=fl['transformers'], explode_multivalue_features=fl['multivalue'],
                           subfeature_mapping=fl['sub'], interaction_order=int(fl['order']),
                           include_noise_baseline_features=fl['noise'], heuristic=fl['heuristic'],
                           combination_number_upper_bound=int(fl['cap']), missing_value_symbols=case['missing'])
    captured = []
    orig = cr.mixed_rank_graph

    def spy(frame, *a, **k):
        captured.append(frame.copy(deep=True))
        return orig(frame, *a, **k)
    stubs.reset_globals()
    np.random.seed(int(case['np_seed']) % (2**32))
    cr.mixed_rank_graph = spy
    try:
        summary, _, _, _ = cr.compute_batch_ranking(df.values.tolist(), {'num'}, args, stubs.InlinePool(), list(df.columns), _Log(),
                                                    stubs.PBar())
    finally:
        cr.mixed_rank_graph = orig
    active = sum([fl['transformers'] != 'none', fl['multivalue'] != 'False', fl['sub'] != 'False', fl['order'] > 1,
                  fl['noise'] == 'True' and fl['heuristic'] != 'Constant', '3mr' in fl['heuristic']])
    rec.nt(active >= 2 or _nt_frame(case['frame']), key=case)
    rec.cls('flags=%d' % active)
    if len(captured) != 1:
        raise Violation(f'scorer called {len(captured)} times for one batch', kind='C11/additive')
    out = captured[0]
    check_additive(before, out, 'construction chain')
    if fl['multivalue'] != 'False':
        check_multivalue(before, out, fl['multivalue'], case['missing'])
    if fl['sub'] != 'False':
        check_sub(before, out, fl['sub'])
    if fl['noise'] == 'True' and fl['heuristic'] != 'Constant':
        check_controls(before, out)
    cols = set(out.columns)
    for a, b, _ in summary.triplet_scores:
        if a not in cols or b not in cols:
            raise Violation(f'triplet names a feature that is not in the constructed frame: {(a, b)}', kind='C11/additive')


KINDS = {'C11/multivalue-direct': oracle_multivalue, 'C11/subfeature-direct': oracle_sub, 'C11/noise-direct': oracle_noise,
         'C11/chain': oracle_chain}
ORACLES = dict(KINDS)


def dispatch(case, rec):
    """Replay entry for sub-kinds: the case shape tells which clause produced it."""
    if 'flags' in case:
        return oracle_chain(case, rec)
    if 'features' in case:
        return oracle_multivalue(case, rec)
    if 'mapping' in case:
        return oracle_sub(case, rec)
    return oracle_noise(case, rec)


ORACLES['C11/multivalue-long'] = oracle_multivalue
for _k in ('additive', 'rows', 'multivalue', 'subfeature', 'control'):
    ORACLES['C11/' + _k] = dispatch


def run(ctx):
    drive(ctx, [
        Clause('C11/multivalue-direct', case_multivalue, oracle_multivalue, quick=500, thorough=15000, quick_shards=4),
        Clause('C11/multivalue-long', case_multivalue_long, oracle_multivalue, quick=2, thorough=32, quick_shards=2, thorough_shards=16),
        Clause('C11/subfeature-direct', case_sub, oracle_sub, quick=500, thorough=15000, quick_shards=4),
        Clause('C11/noise-direct', case_noise, oracle_noise, quick=150, thorough=4000, quick_shards=2),
        Clause('C11/chain', case_chain, oracle_chain, quick=500, thorough=15000, quick_shards=6),
    ])
