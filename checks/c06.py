"""C06 - the rank graph covers exactly the requested pairs, in both orientations."""
from __future__ import annotations

import itertools
from collections import Counter

import numpy as np
import pandas as pd
from hypothesis import strategies as st

from vlib import stubs
from vlib.harness import Clause, Violation, drive

from outrank.core_ranking import compute_batch_ranking, mixed_rank_graph

ID = 'C06'
RULE = ('Column sets of 1-40 unique names (ASCII, spaces, unicode, punctuation, names containing " AND_REL " acting as 3MR relation '
        'features, label at any position) over tiny string frames (3-8 rows); mode target-only / pairwise; heuristic in '
        '{MI-numba-randomized, MI-numba-3mr, Constant, correlation-Pearson (NaN scores on constant columns), max-value-coverage, MI, AMI}; '
        'the label column is "label" or a sequence of 1-2 other columns ranked one after the other in the same process; cap in {1..|candidates|+5, 2^15, 10^4+1, 10^5}; 1-3 consecutive batches per case '
        '(fresh sampler state before the first); names include look-alikes of the relation marker (BRAND_RELEVANCE, AND_REL without blanks) and of the label. Non-trivial = >=3 columns and (cap < |required pairs| or pairwise or 3MR). Distinct = digest of the case.')
ASSUMPTIONS = ['duplicate candidates (pairwise mode lists non-label self pairs twice) are tolerated: the statement speaks of sets of pairs',
               'self pairs of relation features are allowed but not required (statement silent)',
               'required-set inclusion is asserted only when the cap is at least the length of the longest candidate list a '
               'duplicate-tolerant implementation may build (|required| + #non-label columns)']

TRICKY_NAMES = ['MULTIEX-tags-blue', 'MULTIEX-tags-green', 'MULTIEX-tags-red', 'SUBFEATURE-a&b', 'SUBFEATURE-a&c', 'CONTROL-x', 'f_tr_sqrt',
                'BRAND_RELEVANCE', 'AND_REL', 'xAND_RELy', ' AND_REL', 'AND_REL ', 'a AND b', 'AND', 'REL', 'label2', 'xlabel', ' label',
                'label ', 'Label', 'a,b', "('a', 'b')", '0', 'None', 'nan']
NAME_ALPHABET = ['a', 'b', 'c', 'x', 'y', 'f', '1', '2', ' ', '_', '-', '.', 'é', '日', 'A', 'N', 'D', '&', '|']


@st.composite
def names_strategy(draw):
    n = draw(st.one_of(st.integers(1, 6), st.integers(1, 40)))
    base = draw(st.lists(st.text(alphabet=NAME_ALPHABET, min_size=1, max_size=6), min_size=n, max_size=n, unique=True))
    tricky = draw(st.lists(st.sampled_from(TRICKY_NAMES), max_size=4, unique=True))
    if draw(st.integers(0, 7)) == 0:
        # second-order interaction features next to their constituents: ('a AND b', 'c') and ('a', 'b AND c') are different pairs
        tricky = tricky + ['a', 'b', 'c', 'a AND b', 'b AND c', 'a AND c']
    base = [b for b in dict.fromkeys(base + tricky) if b != 'label' and ' AND_REL ' not in b] or ['f']
    # turn some into relation-feature names
    nrel = draw(st.integers(0, min(4, len(base) // 2)))
    rel = []
    for i in range(nrel):
        a = draw(st.sampled_from(base))
        b = draw(st.sampled_from(base))
        nm = f'{a} AND_REL {b}'
        if nm not in rel:
            rel.append(nm)
    cols = base + rel
    pos = draw(st.integers(0, len(cols)))
    cols.insert(pos, 'label')
    perm = draw(st.permutations(list(range(len(cols))))) if draw(st.booleans()) else list(range(len(cols)))
    return [cols[i] for i in perm]


@st.composite
def case_strategy(draw):
    cols = draw(names_strategy())
    nrows = draw(st.integers(3, 8))
    seed = draw(st.integers(0, 2**32 - 1))
    pairwise = draw(st.booleans())
    heuristic = draw(st.sampled_from(['MI-numba-randomized', 'MI-numba-randomized', 'MI-numba-3mr', 'MI-numba-3mr', 'Constant',
                                      'correlation-Pearson', 'max-value-coverage', 'MI', 'AMI']))
    if heuristic in ('MI', 'AMI') and len(cols) > 8:
        heuristic = 'max-value-coverage'      # sklearn scorers cost ~1 ms per pair; keep them to small column sets
    plain = [c for c in cols if ' AND_REL ' not in c]
    labels = ['label'] if draw(st.integers(0, 2)) else draw(st.lists(st.sampled_from(plain), min_size=1, max_size=2, unique=True))
    nreq = len(required_pairs(cols, pairwise, heuristic))   # size with the default label; only used to scale the cap
    cap = draw(st.one_of(st.integers(1, nreq + len(cols) + 5), st.sampled_from([2**15, 10**4 + 1, 10**5])))
    return {'cols': cols, 'nrows': nrows, 'seed': seed, 'pairwise': pairwise, 'heuristic': heuristic, 'cap': cap,
            'batches': draw(st.sampled_from([1, 1, 2, 3])), 'labels': labels,
            'ncpus': draw(st.sampled_from([1, 1, 2, 3, 4, 7, 16])), 'grow': draw(st.sampled_from([0, 0, 1, 3])),
            'ref_json': draw(st.sampled_from([0, 0, 0, 1, 2])),
            # the batch may enter one level up, as raw rows (non-3MR only: the 3MR branch of that function adds relation columns);
            # emptycol: one non-label column holds only a missing-value symbol in this batch (a sparse feature absent from the batch)
            'entry': draw(st.sampled_from(['mixed_rank_graph', 'mixed_rank_graph', 'compute_batch_ranking'])),
            'emptycol': draw(st.sampled_from([None, None, '', '{}']))}


@st.composite
def long_batch_case(draw):
    """Mini-batches of the default length (2^14 rows) and longer with 30-40 columns: the evaluated pairs do not depend on the row count."""
    if draw(st.integers(0, 1)) == 0:
        # shorter batches with id-like columns (every value distinct: user / ad ids): joint cardinalities above 10^6
        ncols = draw(st.integers(4, 8))
        cols = [f'c{i}' for i in range(ncols - 1)]
        cols.insert(draw(st.integers(0, ncols - 1)), 'label')
        plain = [c for c in cols if c != 'label']
        return {'cols': cols, 'nrows': draw(st.integers(1100, 2500)), 'seed': draw(st.integers(0, 2**32 - 1)),
                'pairwise': draw(st.sampled_from([True, True, False])),
                'heuristic': draw(st.sampled_from(['Constant', 'MI-numba-randomized', 'MI-numba-3mr', 'max-value-coverage'])),
                'cap': 2**15, 'batches': 1, 'labels': ['label'], 'ncpus': 1, 'grow': 0, 'ref_json': 0,
                'idcols': plain[:draw(st.integers(1, min(3, len(plain))))]}
    ncols = draw(st.integers(30, 40))
    cols = [f'c{i}' for i in range(ncols - 1)]
    cols.insert(draw(st.integers(0, ncols - 1)), 'label')
    return {'cols': cols, 'nrows': draw(st.sampled_from([2**14, 2**14, 20000, 2**15])), 'seed': draw(st.integers(0, 2**32 - 1)),
            'pairwise': draw(st.sampled_from([True, True, False])),
            'heuristic': draw(st.sampled_from(['Constant', 'MI-numba-randomized', 'MI-numba-3mr'])),
            'cap': draw(st.sampled_from([2**15, 2**15, 10**4 + 1, 700])), 'batches': 1, 'labels': ['label'], 'ncpus': draw(st.sampled_from([1, 4, 16])),
            'grow': 0, 'ref_json': 0}


def upair(a, b):
    return (a, b) if a <= b else (b, a)


def required_pairs(cols, pairwise, heuristic, label='label'):
    if '3mr' in heuristic:
        rel = [c for c in cols if ' AND_REL ' in c]
        non = [c for c in cols if ' AND_REL ' not in c]
        req = {upair(a, b) for a, b in itertools.combinations_with_replacement(non, 2)}
        req |= {upair(r, label) for r in rel}
        return req
    if not pairwise:
        return {upair(c, label) for c in cols}
    return {upair(a, b) for a, b in itertools.combinations_with_replacement(cols, 2)}


def allowed_pairs(cols, pairwise, heuristic, label='label'):
    req = required_pairs(cols, pairwise, heuristic, label)
    if '3mr' in heuristic and pairwise:
        req = req | {upair(c, c) for c in cols if ' AND_REL ' in c}
    return req


def oracle(case, rec):
    cols, pairwise, h, cap = case['cols'], case['pairwise'], case['heuristic'], int(case['cap'])
    rng = np.random.Generator(np.random.PCG64(int(case['seed'])))
    df = pd.DataFrame({c: rng.integers(0, 3, size=case['nrows']).astype(str) for c in cols}) if case['nrows'] > 1000 else \
        pd.DataFrame({c: [str(int(v)) for v in rng.integers(0, 3, size=case['nrows'])] for c in cols})
    if case['nrows'] >= 2**14:
        rec.cls('batch>=2^14-rows')
    for c in case.get('idcols') or []:
        df[c] = [f'id{int(v)}' for v in rng.permutation(case['nrows'])]
    if case.get('idcols'):
        rec.cls('id-like-columns')
    plain_cols = [c for c in cols if ' AND_REL ' not in c and c not in (case.get('labels') or ['label'])]
    if case.get('emptycol') is not None and plain_cols:
        df[plain_cols[0]] = [case['emptycol']] * case['nrows']
        rec.cls('all-missing-column')
    stubs.reset_globals()
    eff_cap = min(cap, 10**4) if '3mr' in h else cap
    nb = int(case.get('batches', 1))
    labels = case.get('labels') or ['label']
    req0 = required_pairs(cols, pairwise, h, labels[0])
    rec.nt(len(cols) >= 3 and (eff_cap < len(req0) or pairwise or '3mr' in h), key=case)
    rec.cls('h=' + h, 'pairwise' if pairwise else 'target-only', 'capped' if eff_cap < len(req0) else 'uncapped',
            'batches=%d' % nb, 'labels=%d' % len(labels), 'ncpus=%d' % int(case.get('ncpus', 1)),
            'grows' if case.get('grow') and nb > 1 else 'same-width')
    if any(' AND_REL ' in c for c in cols):
        rec.cls('has-relation-feature')
    if any('AND_REL' in c and ' AND_REL ' not in c for c in cols):
        rec.cls('has-lookalike-of-relation-name')
    colset = set(cols)
    ref_path = None
    if case.get('ref_json') and h in ('MI-numba-randomized', 'max-value-coverage', 'Constant'):
        # a reference model given to a NON-prior heuristic only adds context: the requested pairs stay the same
        import json as _json
        import os as _os
        import tempfile as _tempfile
        plain = [c for c in cols if ' AND_REL ' not in c and c not in labels]
        fd, ref_path = _tempfile.mkstemp(prefix='c06-ref-', suffix='.json')
        with _os.fdopen(fd, 'w') as fh:
            _json.dump({'desc': {'features': plain[:int(case['ref_json'])], 'fields': []}}, fh)
        rec.cls('reference-json-with-non-prior-heuristic')
    try:
        _oracle_body(case, rec, cols, df, colset, labels, h, pairwise, cap, eff_cap, nb, rng, ref_path)
    finally:
        if ref_path:
            import os as _os
            _os.unlink(ref_path)


def _oracle_body(case, rec, cols, df, colset, labels, h, pairwise, cap, eff_cap, nb, rng, ref_path):
    cols0, df0 = list(cols), df
    grow = int(case.get('grow', 0)) if cap > 10**4 or True else 0
    for li, label in enumerate(labels):
        cols, df, colset = list(cols0), df0, set(cols0)
        # a later ranking of the same columns against another label column must not be influenced by the earlier one
        args = stubs.make_args(heuristic=h, target_ranking_only='False' if pairwise else 'True',
                               combination_number_upper_bound=cap, label_column=label,
                               reference_model_JSON=ref_path or '')
        req = required_pairs(cols, pairwise, h, label)
        allowed = allowed_pairs(cols, pairwise, h, label)
        dups = len([c for c in cols if c != label]) if pairwise else 0
        held = []          # (row list object as returned, snapshot of its contents at return time) of every batch of this run
        for bi in range(nb):
            if bi == 1 and grow:
                # a later batch of the same run may be wider (value-dependent constructed columns): same args object, more pairs
                extra = [f'grown{j}' for j in range(grow)]
                df = pd.concat([df0, pd.DataFrame({c: [str(int(v)) for v in rng.integers(0, 3, size=case['nrows'])] for c in extra})],
                               axis=1)
                cols = cols0 + extra
                colset = set(cols)
                req = required_pairs(cols, pairwise, h, label)
                allowed = allowed_pairs(cols, pairwise, h, label)
                dups = len([c for c in cols if c != label]) if pairwise else 0
            if case.get('entry') == 'compute_batch_ranking' and '3mr' not in h and not ref_path:
                import logging
                rows = [[str(v) for v in r] for r in df.itertuples(index=False, name=None)]
                out = compute_batch_ranking(rows, set(), args, stubs.InlinePool(ncpus=int(case.get('ncpus', 1))), list(df.columns),
                                            logging.getLogger('c06'), stubs.PBar())[0].triplet_scores
                if bi == 0 and li == 0:
                    rec.cls('entry=compute_batch_ranking')
            else:
                out = mixed_rank_graph(df, args, stubs.InlinePool(ncpus=int(case.get('ncpus', 1))), stubs.PBar()).triplet_scores
            where = f'label {label!r} (#{li + 1} of {len(labels)}), batch {bi + 1} of {nb}: '
            held.append((out, [tuple(r) for r in out]))
            for hi, (obj, snap) in enumerate(held[:-1]):
                # a caller that keeps the rows of an earlier batch still holds THAT batch's rows after later batches were ranked
                if [tuple(r) for r in obj] != snap:
                    raise Violation(where + f'the row list returned for batch {hi + 1} changed after later batches were ranked '
                                    f'({len(snap)} rows then, {len(obj)} rows now)', kind='C06/foreign-column')
            for a, b, s in out:
                if a not in colset or b not in colset:
                    raise Violation(where + f'row mentions a column outside the feature space: {(a, b)}', kind='C06/foreign-column')
            evaluated = {upair(a, b) for a, b, _ in out}
            if not evaluated <= allowed:
                raise Violation(where + f'evaluated pairs outside the requested set: {sorted(evaluated - allowed)[:5]}',
                                kind='C06/not-requested')
            if h == 'Constant':
                if any(float(s) != 0.0 for _, _, s in out):
                    raise Violation(where + 'Constant heuristic emitted a non-zero score', kind='C06/constant')
                nsel = len(out)
            else:
                def key(s):
                    s = float(s)
                    return 'nan' if s != s else s      # an undefined score (e.g. Pearson on a constant column) is still a row
                rows = Counter((a, b, key(s)) for a, b, s in out)
                for (a, b, s), k in rows.items():
                    if rows.get((b, a, s), 0) != k:
                        raise Violation(where + f'orientation ({a!r},{b!r},{s}) occurs {k}x but its mirror {rows.get((b, a, s), 0)}x',
                                        kind='C06/mirroring')
                if len(out) % 2:
                    raise Violation(where + f'odd number of rows {len(out)}', kind='C06/mirroring')
                nsel = len(out) // 2
            if nsel > eff_cap:
                raise Violation(where + f'{nsel} candidates evaluated, cap is {eff_cap}', kind='C06/cap')
            if nsel < min(eff_cap, len(req)):
                raise Violation(where + f'only {nsel} candidates evaluated; requested {len(req)}, cap {eff_cap}', kind='C06/cap')
            if bi == 0 and li == 0:
                # fresh sampler state: the distinct pairs are exactly min(cap, requested) (duplicates sort last)
                if len(evaluated) != min(eff_cap, len(req)) and not (len(req) <= len(evaluated) <= len(allowed) and eff_cap >= len(req)):
                    raise Violation(where + f'{len(evaluated)} distinct pairs evaluated; requested {len(req)}, cap {eff_cap}',
                                    kind='C06/cap')
            if eff_cap >= len(req) + dups:
                missing = req - evaluated
                if missing:
                    raise Violation(where + f'requested pairs missing although the cap ({eff_cap}) does not bind: '
                                    f'{sorted(missing)[:5]} ({len(missing)} of {len(req)})', kind='C06/missing-pair')


@st.composite
def stream_case(draw):
    """A small csv file streamed in 2-4 mini-batches whose feature spaces differ (an exploded multi-value column with batch-specific
    tokens): the rows handed out for a batch are that batch's rows, also after the later batches were processed."""
    return {'stream': {'m': draw(st.integers(4, 12)), 'batches': draw(st.integers(2, 4)), 'seed': draw(st.integers(0, 2**32 - 1)),
                       'pairwise': draw(st.booleans())}}


def oracle_stream(case, rec):
    import csv as _csv
    import os as _os
    import shutil as _shutil
    import tempfile as _tempfile

    from outrank import core_ranking as cr
    g = case['stream']
    m, nb = int(g['m']), int(g['batches'])
    rng = np.random.Generator(np.random.PCG64(int(g['seed'])))
    tmp = _tempfile.mkdtemp(prefix='c06s-')
    old = _os.getcwd()
    orig = cr.compute_batch_ranking
    held = []

    def spy(*a, **k):
        res = orig(*a, **k)
        rows = res[0].triplet_scores
        held.append((rows, [tuple(r) for r in rows]))
        return res
    try:
        _os.chdir(tmp)
        with open('data.csv', 'w', newline='') as fh:
            w = _csv.writer(fh, lineterminator='\n')
            w.writerow(['f0', 'tags', 'label'])
            for b in range(nb):
                for i in range(m):
                    w.writerow([f'v{int(rng.integers(0, 3))}', f'common-t{b}' if i % 2 else 'common', str(int(rng.integers(0, 2)))])
        args = stubs.make_args(heuristic='MI-numba-randomized', minibatch_size=m, subsampling=1, data_source='csv-raw',
                               target_ranking_only='False' if g['pairwise'] else 'True', explode_multivalue_features='tags')
        stubs.reset_globals()
        cr.compute_batch_ranking = spy
        cr.estimate_importances_minibatches(_os.path.join(tmp, 'data.csv'), ['f0', 'tags', 'label'], None, set(), args=args,
                                            data_encoding='utf-8', cpu_pool=stubs.InlinePool(), delimiter=',', logger=_QuietLogger())
    finally:
        cr.compute_batch_ranking = orig
        _os.chdir(old)
        _shutil.rmtree(tmp, ignore_errors=True)
    rec.nt(len(held) >= 2, key=case)
    rec.cls('streamed-batches=%d' % len(held))
    for bi, (obj, snap) in enumerate(held):
        now = [tuple(r) for r in obj]
        if now != snap:
            names = sorted({x for r in now for x in r[:2]} - {x for r in snap for x in r[:2]})
            raise Violation(f'the rows returned for mini-batch {bi + 1} of {len(held)} changed after the later batches were processed: '
                            f'{len(snap)} rows at return time, {len(now)} now; columns that were not in that batch: {names[:4]}',
                            kind='C06/foreign-column')


class _QuietLogger:
    def info(self, *a, **k):
        pass

    warning = error = debug = info


KINDS = ['C06/pairs', 'C06/long-batch', 'C06/foreign-column', 'C06/not-requested', 'C06/constant', 'C06/mirroring', 'C06/cap', 'C06/missing-pair']
ORACLES = {k: oracle for k in KINDS}
ORACLES['C06/stream-summaries'] = oracle_stream


def run(ctx):
    drive(ctx, [Clause('C06/pairs', case_strategy, oracle, quick=1600, thorough=150000, quick_shards=8),
                Clause('C06/stream-summaries', stream_case, oracle_stream, quick=12, thorough=600, quick_shards=4),
                Clause('C06/long-batch', long_batch_case, oracle, quick=16, thorough=160, quick_shards=8, thorough_shards=16)])
