"""C09 - results independent of worker count and scheduling, and reproducible across fresh runs."""
from __future__ import annotations

import json
import os
import shutil
import subprocess
import sys
import tempfile
from concurrent.futures import ThreadPoolExecutor

import numpy as np
import pandas as pd
from hypothesis import strategies as st

from vlib import stubs
from vlib.harness import REPO, VERIF_DIR, Clause, HarnessError, Rec, Violation, digest, drive, jdump

from outrank import core_ranking as cr
from outrank import task_ranking as tr

ID = 'C09'
RULE = ('Batching clause: the ranking task in-process with pools of 1 and 16 workers on a file whose mini-batch exceeds 2^24/16 cells '
        '(batch boundaries and scores must not depend on the worker count). Layer 1 (owned schedules, in-process): generated frames (2-20 columns, so that batches exceed 128 combinations) x '
        'configurations (incl. --mi_stratified_sampling_ratio < 1 and the noise controls drawn from the global numpy RNG) x schedules (execution permutation seed, 1-16 logical workers, '
        'optionally real threads, map flavour, async results that become ready after a generated number of polls - the 4 s polling '
        'sleep of the code is replaced by a no-op through a module-attribute shim) - the triplet lists of two consecutive batches under the scheduled pool must '
        'equal those under the inline pool; non-trivial = execution order differs from submission order with >=2 workers. Layer 2 '
        '(real pathos pools, fresh processes): the real CLI entry point with --num_threads in {1,2,4,8,16}, every scoring call in the '
        'forked workers delayed by sha256(schedule seed, combination) (0-15 ms) and logged; pairwise_ranks.tsv rows must be identical '
        'across all runs of one input; non-trivial = run whose completion order differs from another run of the same input with >=2 '
        'worker pids. Layer 3: same command under different generated PYTHONHASHSEED values. Configurations (pairwise / target-only, '
        'interaction order, --feature_set_focus, --explode_multivalue_features, --subfeature_mapping, noise controls, transformers on '
        'float columns via ob-csv, binding caps) are drawn from PCG64(VERIF_SEED).')
ASSUMPTIONS = ['real worker interleavings are sampled (delays make completion orders diverse; they are counted, not enumerated)',
               'tie order inside pairwise_ranks.tsv is not constrained: rows are compared as a sorted list']

# ---- layer 1 -------------------------------------------------------------------------------------


class _DelayedResult:
    """Async result that reports ready() only after a generated number of polls (completion time owned by the harness)."""

    def __init__(self, values, polls):
        self._values = values
        self._polls = polls

    def ready(self):
        if self._polls > 0:
            self._polls -= 1
            return False
        return True

    def get(self, timeout=None):
        return self._values

    def wait(self, timeout=None):
        self._polls = 0


class _NoSleepTime:
    """Stands in for the `time` module inside outrank.core_ranking during in-process runs: sleep() returns at once."""

    def __getattr__(self, name):
        import time as _t
        return getattr(_t, name)

    def sleep(self, seconds):
        return None


class FlavouredPool(stubs.ScheduledPool):
    """ScheduledPool plus the other pathos map flavours with their documented ordering contracts; every async result
    becomes ready after a generated number of polls, so later submissions may complete before earlier ones."""

    def amap(self, f, xs):
        res = super().amap(f, xs)
        rng = np.random.Generator(np.random.PCG64(self.order_seed * 31 + self.calls))
        return _DelayedResult(res.get(), int(rng.integers(0, 4)))

    def uimap(self, f, xs):
        xs = list(xs)
        self.calls += 1
        rng = np.random.Generator(np.random.PCG64(self.order_seed + 7919 * self.calls))
        perm = rng.permutation(len(xs)).tolist()
        self.executed_orders.append(perm)
        return iter([f(xs[i]) for i in perm])      # completion order

    def imap(self, f, xs):
        return iter(self.amap(f, xs).get())        # submission order


@st.composite
def l1_case(draw):
    ncols = draw(st.one_of(st.integers(2, 6), st.integers(2, 6), st.integers(2, 6), st.integers(16, 22), st.integers(10, 12)))
    nrows = draw(st.integers(8, 120))
    return {'ncols': ncols, 'nrows': nrows, 'seed': draw(st.integers(0, 2**32 - 1)),
            'label_pos': draw(st.integers(0, ncols - 1)), 'pairwise': draw(st.booleans()),
            'heuristic': draw(st.sampled_from(['MI-numba-randomized', 'MI-numba-randomized', 'MI-numba-3mr', 'max-value-coverage'])),
            'cap': draw(st.sampled_from([2, 5, 2**15, 2**15, 2**15])), 'interaction_order': draw(st.sampled_from([1, 1, 2])),
            'ratio': draw(st.sampled_from([1.0, 1.0, 0.6, 0.35])), 'noise': draw(st.sampled_from([False, False, True])),
            'order_seed': draw(st.integers(0, 2**31)), 'workers': draw(st.integers(1, 16)), 'threads': draw(st.booleans())}


def l1_frames(case):
    rng = np.random.Generator(np.random.PCG64(int(case['seed'])))
    names = [f'f{i}' for i in range(case['ncols'])]
    names[case['label_pos']] = 'label'
    frames = []
    for _ in range(2):
        base = rng.integers(0, 3, size=case['nrows'])
        data = {}
        for j, n in enumerate(names):
            k = [2, 3, 5, 9, 30, 4][j % 6]
            noise = rng.integers(0, k, size=case['nrows'])
            col = np.where(rng.random(case['nrows']) < 0.5, base % k, noise)
            data[n] = [f'v{int(v)}' for v in col]
        frames.append(pd.DataFrame(data))
    return names, frames


def oracle_l1(case, rec):
    names, frames = l1_frames(case)
    if 10 <= case['ncols'] <= 12 and '3mr' in case['heuristic']:
        case = dict(case, heuristic='MI-numba-randomized')    # 3MR on top of > 32 constructed features is quadratic again
    args = lambda: stubs.make_args(heuristic=case['heuristic'], target_ranking_only='False' if case['pairwise'] else 'True',  # noqa: E731
                                   combination_number_upper_bound=int(case['cap']),
                                   interaction_order=(int(case['interaction_order']) if case['ncols'] <= 6
                                                      else 2 if case['ncols'] <= 12 else 1),   # 10-12 columns: > 32 constructed features
                                   mi_stratified_sampling_ratio=float(case.get('ratio', 1.0)),
                                   include_noise_baseline_features='True' if case.get('noise') else 'False')

    def run_with(pool):
        stubs.reset_globals()
        a = args()
        out = []
        for df in frames:
            summary, _, _, _ = cr.compute_batch_ranking(df.values.tolist(), set(), a, pool, list(df.columns), None, stubs.PBar())
            out.append([(x, y, float(s)) for x, y, s in summary.triplet_scores])
        return out
    real_time = cr.time
    cr.time = _NoSleepTime()       # the polling loop sleeps 4 s per poll; the harness owns completion times instead
    try:
        base = run_with(stubs.InlinePool())
        pool = FlavouredPool(order_seed=case['order_seed'], workers=case['workers'], threads=case['threads'])
        got = run_with(pool)
    finally:
        cr.time = real_time
    permuted = any(p != sorted(p) for p in pool.executed_orders)
    rec.nt(permuted and case['workers'] >= 2, key=case)
    rec.cls('threads' if case['threads'] else 'logical-workers', 'h=' + case['heuristic'],
            'noise-controls' if case.get('noise') else 'no-noise', 'cap-binds' if case['cap'] < 10 else 'cap-free', 'ratio<1' if case.get('ratio', 1.0) < 1 else 'ratio=1',
            '>128-combinations' if any(len(b) > 256 for b in base) else '<=128-combinations')
    if got != base:
        for bi, (g, b) in enumerate(zip(got, base)):
            if g != b:
                diff = [(x, y) for x, y in zip(g, b) if x != y][:2]
                raise Violation(f'batch {bi + 1}: triplets under the scheduled pool (workers={case["workers"]}, threads={case["threads"]}) '
                                f'differ from the inline pool: {diff} (lengths {len(g)} vs {len(b)})')
        raise Violation('different number of batches')


# ---- layers 2 and 3 ----------------------------------------------------------------------------------

FLAGS = ['pairwise', 'focus', 'multivalue', 'subfeature', 'noise', 'order2', 'transformers', 'cap', 'mi_ratio']


PROBES = [['num', 'amount', 'price'], ['0', '1', '2', '3'], ['f0', 'f1', 'f2', 'mv', 'num', 'amount', 'price', 'label']]


def _set_orders(hash_seed):
    code = 'import json,sys; print(json.dumps([list(set(p)) for p in json.loads(sys.argv[1])]))'
    out = subprocess.run([sys.executable, '-c', code, json.dumps(PROBES)], env=dict(os.environ, PYTHONHASHSEED=str(hash_seed)),
                         capture_output=True, text=True, timeout=60).stdout
    return json.loads(out)


def pick_hash_seeds(rng, k):
    """Generated PYTHONHASHSEED values, built so that they matter: each one iterates every probe set (the names the
    pipeline puts into sets) in an order different from hash seed 0."""
    base = _set_orders(0)
    out = []
    for _ in range(400):
        h = int(rng.integers(1, 2**31))
        o = _set_orders(h)
        if all(a != b for a, b in zip(o, base)):
            out.append(h)
            if len(out) == k:
                return out
    raise HarnessError('could not find hash seeds that change set iteration order')


def gen_config(rng, kitchen_sink=False):
    on = {f: bool(kitchen_sink or rng.random() < 0.5) for f in FLAGS}
    if kitchen_sink:
        on['order2'] = False      # keeps the quick run short
        on['noise'] = True        # noise controls: drawn from the global numpy RNG, identical in every fresh process
        on['cap'] = False         # a binding cap would hide most pairs; the second quick input binds it
        on['mi_ratio'] = False    # the second quick input uses the stratified-sampling flag
    return {'flags': on, 'data_seed': int(rng.integers(0, 2**31)), 'rows': 1200, 'minibatch': 600}


def write_input(cfg, root):
    rng = np.random.Generator(np.random.PCG64(cfg['data_seed']))
    n = cfg['rows']
    data = os.path.join(root, 'data')
    os.makedirs(data)
    cols = ['f0', 'f1', 'f2', 'mv', 'num', 'amount', 'price', 'label']
    with open(os.path.join(data, 'data.csv'), 'w') as fh:
        fh.write(','.join(cols) + '\n')
        for _ in range(n):
            lab = int(rng.integers(0, 2))
            f0 = lab if rng.random() < 0.8 else 1 - lab
            f1 = int(rng.integers(0, 4))
            f2 = (f1 + int(rng.integers(0, 2))) % 6
            mv = '-'.join(sorted({str(int(x)) for x in rng.integers(0, 4, size=2)}))
            num = round(float(rng.random() * 40), 2)
            amount = int(rng.integers(0, 9)) * (1 + lab)
            price = round(float(rng.integers(1, 30)) * (1.5 if f1 > 1 else 0.5), 1)
            fh.write(f'c{f0},d{f1},e{f2},{mv},{num},{amount},{price},{lab}\n')
    desc = {'data_features': [{'name': c, 'type': 'float' if c in ('num', 'amount', 'price') else 'str'} for c in cols]}
    with open(os.path.join(data, 'dataset_desc.json'), 'w') as fh:
        json.dump(desc, fh)
    return data


def cli_args(cfg, data, out, num_threads):
    f = cfg['flags']
    a = ['--task', 'ranking', '--data_path', data, '--data_source', 'ob-csv' if f['transformers'] else 'csv-raw',
         '--subsampling', '1', '--minibatch_size', str(cfg['minibatch']), '--num_threads', str(num_threads),
         '--heuristic', 'MI-numba-randomized', '--output_folder', out, '--disable_tqdm', 'True',
         '--target_ranking_only', 'False' if f['pairwise'] else 'True']
    if f['focus']:
        a += ['--feature_set_focus', 'f0,f1,f2,mv,num,amount,price']
    if f['multivalue']:
        a += ['--explode_multivalue_features', 'mv']
    if f['subfeature']:
        a += ['--subfeature_mapping', 'f0->f1;f0<->f1']
    if f['noise']:
        a += ['--include_noise_baseline_features', 'True']
    if f['order2']:
        a += ['--interaction_order', '2']
    if f['transformers']:
        a += ['--transformers', 'minimal']
    if f['cap']:
        a += ['--combination_number_upper_bound', '7']
    if f.get('mi_ratio'):
        a += ['--mi_stratified_sampling_ratio', '0.6']
    return a


def real_run(cfg, data, root, tag, num_threads, sched_seed, hash_seed, max_delay=15, reuse=False):
    work = os.path.join(root, tag)
    if reuse:
        # the identical command once more, in a fresh process, into the SAME working directory and output folder
        try:
            os.unlink(os.path.join(work, 'completion.log'))
        except OSError:
            pass
    else:
        os.makedirs(work)
    out = os.path.join(work, 'out')
    env = dict(os.environ, PYTHONHASHSEED=str(hash_seed), VERIF_REPO=REPO)
    cmd = [sys.executable, os.path.join(VERIF_DIR, 'vlib', 'c09_driver.py'), work, str(sched_seed), str(max_delay), '--'] + \
        cli_args(cfg, data, out, num_threads)
    try:
        p = subprocess.run(cmd, env=env, capture_output=True, text=True, timeout=900, cwd=work)
    except subprocess.TimeoutExpired:
        raise HarnessError(f'real run {tag} timed out (inconclusive)')
    ranks = os.path.join(out, 'pairwise_ranks.tsv')
    if p.returncode != 0 or not os.path.exists(ranks):
        return {'tag': tag, 'rc': p.returncode, 'rows': None, 'stderr': p.stderr[-1500:], 'order': [], 'pids': 0}
    with open(ranks, encoding='utf-8') as fh:
        rows = sorted(fh.read().splitlines()[1:])
    order, pids = [], set()
    try:
        with open(os.path.join(work, 'completion.log'), encoding='utf-8') as fh:
            for line in fh:
                pid, a, b = line.rstrip('\n').split('\t')
                pids.add(pid)
                order.append((a, b))
    except OSError:
        pass
    return {'tag': tag, 'rc': 0, 'rows': rows, 'order': order, 'pids': len(pids), 'stderr': ''}


def oracle_real(case, rec):
    """case = {'cfg':..., 'runs': [[num_threads, sched_seed, hash_seed], ...]}"""
    cfg = case['cfg']
    root = tempfile.mkdtemp(prefix='c09-')
    try:
        data = write_input(cfg, root)
        with ThreadPoolExecutor(max_workers=int(case.get('parallel', 6))) as ex:
            futs = [ex.submit(real_run, cfg, data, root, f'run{i}', nt, ss, hs) for i, (nt, ss, hs) in enumerate(case['runs'])]
            results = [f.result() for f in futs]
            reruns = []
            for i in case.get('rerun', []):
                nt, ss, hs = case['runs'][i]
                if results[i]['rows'] is not None:
                    reruns.append((i, ex.submit(real_run, cfg, data, root, f'run{i}', nt, ss, hs, 15, True)))
            reruns = [(i, f.result()) for i, f in reruns]
    finally:
        shutil.rmtree(root, ignore_errors=True)
    base = results[0]
    orders = {digest(jdump(r['order'])) for r in results if r['rows'] is not None}
    rec.classes.append('distinct-completion-orders=%d' % len(orders))
    case['_observed'] = {'distinct_completion_orders': len(orders), 'worker_pids': [r['pids'] for r in results]}
    rec.nt(len(orders) >= 2 and any(r['pids'] >= 2 for r in results), key=[cfg, case['runs']])
    for r in results:
        if r['rc'] != 0 or r['rows'] is None:
            raise Violation(f'run {r["tag"]} (threads/schedule/hashseed={case["runs"][int(r["tag"][3:])]}) failed rc={r["rc"]}: '
                            f'{r["stderr"][-600:]}', kind='C09/run-failed')
    for i, r2 in reruns:
        rec.classes.append('rerun-into-same-output-folder')
        a = case['runs'][i]
        if r2['rc'] != 0 or r2['rows'] is None:
            raise Violation(f'repeating run {i} (threads/schedule/hashseed={a}) into the same output folder failed rc={r2["rc"]}: '
                            f'{r2["stderr"][-600:]}', kind='C09/run-failed')
        if r2['rows'] != results[i]['rows']:
            diff = [(x, y) for x, y in zip(results[i]['rows'], r2['rows']) if x != y][:3]
            raise Violation(f'pairwise_ranks.tsv differs between two runs of the identical command (threads={a[0]}, schedule={a[1]}, '
                            f'PYTHONHASHSEED={a[2]}) into the same output folder; flags={[k for k, v in cfg["flags"].items() if v]}; '
                            f'first differing rows: {diff}', kind='C09/rerun')
    by_key = {}
    for i, r in enumerate(results):
        by_key.setdefault((case['runs'][i][0], case['runs'][i][1]), i)
    for i, r in enumerate(results[1:], start=1):
        b = case['runs'][i]
        ref_i = by_key[(b[0], b[1])] if by_key[(b[0], b[1])] != i else 0   # same pool+schedule (hash-seed layer) else the first run
        a = case['runs'][ref_i]
        if r['rows'] != results[ref_i]['rows']:
            base_rows = results[ref_i]['rows']
            diff = [(x, y) for x, y in zip(base_rows, r['rows']) if x != y][:3]
            kind = 'C09/hash-seed' if (a[0], a[1]) == (b[0], b[1]) else 'C09/pool-or-schedule'
            raise Violation(f'pairwise_ranks.tsv differs between run (threads={a[0]}, schedule={a[1]}, PYTHONHASHSEED={a[2]}) and '
                            f'(threads={b[0]}, schedule={b[1]}, PYTHONHASHSEED={b[2]}); flags={[k for k, v in cfg["flags"].items() if v]}; '
                            f'first differing rows: {diff}; row counts {len(base_rows)} vs {len(r["rows"])}', kind=kind)


def oracle_batching(case, rec):
    """The ranking task in-process (owned pools reporting 1 and 16 workers) on a batch of more than 10^6 cells: the rows that
    enter each mini-batch and the written scores must not depend on --num_threads."""
    g = case['batching']
    rng = np.random.Generator(np.random.PCG64(int(g['seed'])))
    ncols, rows, mb = int(g['ncols']), int(g['rows']), int(g['minibatch'])
    root = tempfile.mkdtemp(prefix='c09b-')
    old_cwd = os.getcwd()
    orig_pool, orig_cbr = tr.Pool, cr.compute_batch_ranking
    try:
        os.makedirs(os.path.join(root, 'data'))
        lab = rng.integers(0, 2, size=rows)
        cols = [np.where(rng.random(rows) < 0.6 + 0.05 * j, lab, rng.integers(0, 3 + j, size=rows)) for j in range(ncols - 1)]
        with open(os.path.join(root, 'data', 'data.csv'), 'w') as fh:
            fh.write(','.join([f'f{j}' for j in range(ncols - 1)] + ['label']) + '\n')
            block = np.column_stack(cols + [lab]).astype(str)
            fh.write('\n'.join(','.join(r) for r in block.tolist()) + '\n')
        outputs, sizes = [], []
        for threads in (1, 16):
            seen = []

            def spy(line_tmp_storage, *a, **k):
                seen.append(len(line_tmp_storage))
                return orig_cbr(line_tmp_storage, *a, **k)
            cr.compute_batch_ranking = spy
            tr.Pool = lambda n=None: stubs.InlinePool(ncpus=int(n or 1))
            out = os.path.join(root, f'out{threads}')
            os.chdir(root)
            args = stubs.make_args(task='ranking', data_path=os.path.join(root, 'data'), data_source='csv-raw', output_folder=out,
                                   minibatch_size=mb, subsampling=1, num_threads=threads, heuristic='MI-numba-randomized')
            stubs.reset_globals()
            try:
                tr.outrank_task_conduct_ranking(args)
            except SystemExit:
                pass
            with open(os.path.join(out, 'pairwise_ranks.tsv')) as fh:
                outputs.append(sorted(fh.read().splitlines()[1:]))
            sizes.append(list(seen))
    finally:
        tr.Pool, cr.compute_batch_ranking = orig_pool, orig_cbr
        os.chdir(old_cwd)
        shutil.rmtree(root, ignore_errors=True)
    rec.nt(True, key=case)
    rec.cls('cells-per-batch>10^6')
    if sizes[0] != sizes[1]:
        raise Violation(f'mini-batch sizes depend on the pool size: {sizes[0]} with --num_threads 1, {sizes[1]} with 16 '
                        f'(--minibatch_size {mb}, {ncols} columns, {rows} rows)', kind='C09/batching')
    if outputs[0] != outputs[1]:
        diff = [(x, y) for x, y in zip(outputs[0], outputs[1]) if x != y][:2]
        raise Violation(f'pairwise_ranks.tsv differs between --num_threads 1 and 16: {diff}', kind='C09/batching')


ORACLES = {'C09/batching': oracle_batching, 'C09/owned-schedule': oracle_l1, 'C09/real': oracle_real, 'C09/run-failed': oracle_real,
           'C09/hash-seed': oracle_real, 'C09/pool-or-schedule': oracle_real, 'C09/rerun': oracle_real}


def run(ctx):
    drive(ctx, [Clause('C09/owned-schedule', l1_case, oracle_l1, quick=400, thorough=20000, quick_shards=8)])
    rng = np.random.Generator(np.random.PCG64(ctx.seed))
    if ctx.tier == 'quick':
        capped = gen_config(rng)
        capped['flags'] = {'pairwise': True, 'focus': False, 'multivalue': True, 'subfeature': False, 'noise': False,
                           'order2': False, 'transformers': False, 'cap': True, 'mi_ratio': True}
        cfgs = [gen_config(rng, kitchen_sink=True), capped]
        h1, h2, h3 = pick_hash_seeds(rng, 3)
        plans = [[[1, 11, 0], [4, 12, 0], [16, 13, 0], [4, 12, h1], [4, 12, h2]],
                 [[3, 21, 0], [8, 22, 0], [3, 21, h3], [3, 21, h1]]]      # the binding budget (7) is a multiple of neither pool size
        parallel = 5
    else:
        cfgs = [gen_config(rng, kitchen_sink=(i == 0)) for i in range(12)]
        plans = []
        for _ in cfgs:
            runs = [[nt, 100 + 17 * si + nt, 0] for nt in (1, 2, 4, 8, 16) for si in range(3)]
            runs += [[4, 100 + 4, int(h)] for h in pick_hash_seeds(rng, 4)]
            plans.append(runs)
        parallel = 6
    nb = 1 if ctx.tier == 'quick' else 6
    bcases = []
    for bi in range(nb):
        ncols = int(rng.integers(5, 9))
        mb = (2**24 // (ncols * 16)) + int(rng.integers(3000, 9000))
        bcases.append({'batching': {'ncols': ncols, 'minibatch': mb, 'rows': mb + int(rng.integers(1100, 2000)),
                                    'seed': int(rng.integers(0, 2**31))}})
    observed = []
    cases = [{'cfg': cfg, 'runs': runs, 'parallel': parallel} for cfg, runs in zip(cfgs, plans)]
    for ci, case in enumerate(cases):
        # the first run of every cap-binding input (quick: the second input) is repeated into its own output folder
        if case['cfg']['flags'].get('cap'):
            case['rerun'] = [0]
    with ThreadPoolExecutor(max_workers=3 if ctx.tier == 'quick' else 4) as ex:
        # the in-process batching cases change the cwd / module attributes: they run one after the other in ONE thread while
        # the real-pool cases (subprocesses) run in the others
        bfut = ex.submit(lambda: [ctx.run_oracle('C09/batching', oracle_batching, b) for b in bcases])
        outcomes = list(ex.map(lambda c: ctx.run_oracle('C09/real', oracle_real, c), cases))
        bres = bfut.result()
    for b, res in zip(bcases, bres):
        if res is not None:
            ctx.report(res[0], b, res[1])
    for case, res in zip(cases, outcomes):
        observed.append(case.pop('_observed', None))
        if res is not None:
            ctx.report(res[0], case, res[1])
    ctx.extra['real_runs'] = {'inputs': len(cfgs), 'runs_per_input': [len(p) for p in plans], 'observed': observed}
