"""C12 - transformations compute what their names say; degenerate ones are dropped; preset lists select the union."""
from __future__ import annotations

import math
import re
import warnings

import numpy as np
import pandas as pd
from hypothesis import strategies as st

from vlib.harness import Clause, HarnessError, Violation, drive

import copy

import outrank.feature_transformations.feature_transformer_vault as vault

# Snapshot of the preset dictionaries taken before any transformer object exists; every oracle call restores the live
# dictionaries from it first (global state of the code under test is reset at the top of every iteration).
VAULT = copy.deepcopy({k: dict(v) for k, v in vault._tr_global_namespace.items()})


def reset_vault():
    for k, snap in VAULT.items():
        live = vault._tr_global_namespace.get(k)
        if live is None or live is snap:
            continue
        if dict(live) != snap or list(live) != list(snap):
            live.clear()
            live.update(snap)

from outrank.feature_transformations.ranking_transformers import FeatureTransformerGeneric

ID = 'C12'
RULE = ('Frames of 1-3 numeric columns (2-200 rows) rendered as text plus one non-numeric column. Each column = 1-8 distinct '
        'texts from the classes {zero forms, empty string, +-tiny, +-huge, probabilities, every fw threshold t with '
        't, t+-ulp, t+-1e-9, t+-0.25, t+1/res^2, t+e, integers, negatives, free floats} x {plain, integer form, quoted}, with '
        'generated multiplicities (free / dominant value at floor(0.8n)+{-1,0,1} / negative group at floor(0.75n)+{-1,0,1} / '
        'single value), row order = PCG64 permutation with a drawn seed. Presets: clause formula-keepdrop uses one preset name, '
        'clause preset-union a list of 1-3 names of {minimal, default, fw-transformers} with repeats and both orders. '
        'Non-trivial: formula-keepdrop - at least one (column, transformer) kept and one dropped; preset-union - list length >= 2 '
        'whose union differs from its last element. (column, transformer) pairs whose keep/drop verdict could flip under a one-ulp '
        'change of a logarithm or under identifying -0.0 with 0.0 (excluded:ulp-structure), and pairs with a cell that is not '
        'determined up to rounding - a logarithm rounded next to a .5 boundary, x/max(X) with max(X) a zero of undetermined sign - '
        '(excluded:not-determined) are excluded from the iff and counted per case.')
ASSUMPTIONS = [
    'reference formulas are hand-written per name in pure-Python float64 (math.log / math.sqrt with IEEE conventions for '
    'log(0), log(<0), sqrt(<0), x/0); fw names are parsed by regex into (prob, kind, resolution, threshold)',
    'numeric parse = Python float() of the text with double quotes removed, empty = 0.0',
    'value tolerance 1e-9 relative; "distinct value" is read on the text of the column, where -0.0 and 0.0 differ; pairs where '
    'that reading matters are excluded rather than asserted',
    'the keep rule is evaluated in exact integer arithmetic (5*top < 4*n, 4*nan < 3*n)',
]

PRESETS = ['minimal', 'default', 'fw-transformers']
INT_THRESHOLDS = [1, 2, 4, 8, 16, 32, 64, 96]
RESOLUTIONS = [1, 10, 50, 100]
NAN = float('nan')
INF = float('inf')
REL = 1e-9


# ---- IEEE helpers (pure Python) --------------------------------------------------------------------

def _sqrt(a):
    if a != a:
        return NAN
    if a < 0:
        return NAN
    return math.sqrt(a)  # sqrt(-0.0) = -0.0, sqrt(inf) = inf


def _log(a):
    if a != a or a < 0:
        return NAN
    if a == 0:
        return -INF
    if a == INF:
        return INF
    return math.log(a)


def _div(a, b):
    if b != 0:
        return a / b
    if a != a or a == 0:
        return NAN
    return math.copysign(INF, a) * math.copysign(1.0, b)


def _round(a):
    if a != a or a in (INF, -INF):
        return a
    r = float(round(a))  # round-half-even, exact
    if r == 0:
        return math.copysign(0.0, a)
    return r


def _half_fragile(pre):
    """pre-round value that came from a logarithm and sits within 1e-7 of a half-integer"""
    if pre != pre or pre in (INF, -INF) or abs(pre) > 1e12:
        return False
    frac = abs(pre - math.floor(pre) - 0.5)
    return frac <= 1e-7 * max(1.0, abs(pre))


# Each reference returns (value, fuzzy, fragile):
#   fuzzy   = the value is the raw output of a logarithm (last ulp library dependent)
#   fragile = the value is not determined up to rounding: a logarithm rounded to an integer next to a .5 boundary,
#             or a division by a maximum that is a zero of undetermined sign

def _raw_log(v):
    return (v, v == v and v not in (INF, -INF) and v != 0, False)


def ref_sqrt(x, ctx):
    return (_sqrt(x), False, False)


def ref_log_x1(x, ctx):
    return _raw_log(_log(x + 1))


def ref_sqrt_abs(x, ctx):
    return (_sqrt(abs(x)), False, False)


def ref_log_abs1(x, ctx):
    return _raw_log(_log(abs(x) + 1))


def ref_sign_log(x, ctx):
    return _raw_log(_div(x, abs(x)) * _log(abs(x)))


def ref_asinh_form(x, ctx):
    return _raw_log(_log(x + _sqrt(x * x + 1)))


def ref_log_sqrt(x, ctx):
    return _raw_log(_log(x + 1) * _sqrt(x))


def ref_log100(x, ctx):
    pre = _log(x + 1) * 100
    return (_round(pre), False, _half_fragile(pre))


def ref_nonzero(x, ctx):
    return (1.0 if x != 0 else 0.0, False, False)


def ref_round_div_max(x, ctx):
    # max(X) = 0 with both 0.0 and -0.0 present: the sign of the maximum (hence of x/max) is not determined
    return (_round(_div(x, ctx['max'])), False, ctx['max_sign_ambiguous'] and x != 0)


NAMED = {
    '_tr_sqrt': ref_sqrt,
    '_tr_log(x+1)': ref_log_x1,
    '_tr_sqrt(abs(x))': ref_sqrt_abs,
    '_tr_log(abs(x)+1)': ref_log_abs1,
    '_tr_div(x,abs(x))*log(abs(x))': ref_sign_log,
    '_tr_log(x + sqrt(pow(x,2), 1)': ref_asinh_form,
    '_tr_log*sqrt': ref_log_sqrt,
    '_tr_log*100': ref_log100,
    '_tr_nonzero': ref_nonzero,
    '_tr_round(div(x,max))': ref_round_div_max,
}

FW_RE = re.compile(r'^_tr_fw_(prob_)?(sqrt|log)_res_([0-9]+)_gt_([0-9]+(?:\.[0-9]+)?)$')


def fw_reference(name):
    m = FW_RE.match(name)
    if not m:
        return None
    kind, res, t = m.group(2), int(m.group(3)), float(m.group(4))

    def f(x, ctx):
        if x < t:
            return (x, False, False)
        if x > t:
            if kind == 'sqrt':
                return (_round(_sqrt(x - t) * res), False, False)
            pre = _log(x - t) * res
            return (_round(pre), False, _half_fragile(pre))
        return (0.0, False, False)
    return f


def reference_for(name):
    return NAMED.get(name) or fw_reference(name)


def parse_cell(text):
    s = text.replace('"', '')
    return 0.0 if s == '' else float(s)


# ---- strategies ------------------------------------------------------------------------------------

def _nx(v, up):
    return math.nextafter(v, INF if up else -INF)


def _threshold_values():
    out = []
    for t in INT_THRESHOLDS:
        tf = float(t)
        out += [tf, _nx(tf, True), _nx(tf, False), tf + 1e-9, tf - 1e-9, tf + 0.25, tf - 0.25, tf + 0.5, tf + 1.0,
                tf - 1.0, tf + math.e, tf + 1e-4, tf + 0.01, tf + 2.25, tf + 100.0]
    for t in INT_THRESHOLDS:
        p = t / 100
        out += [p, _nx(p, True), _nx(p, False), p + 1e-9, p - 1e-9, p + 0.001, p - 0.001, p + 0.01, p + 0.25,
                p + 1e-4, p + 0.0025]
    return out


THRESHOLD_VALUES = _threshold_values()
ZERO_FORMS = ['0', '0.0', '-0.0', '', '""', '0e0', '-0', '"0"', '00']
SMALL = [1e-300, -1e-300, 5e-324, -5e-324, 1e-12, -1e-12, 1e-9, -1e-9, 0.001, -0.001, 1e-17]
HUGE = [1e15, -1e15, 1e18, -1e18, 1e100, -1e100, 1e154, 1e155, 1e300, -1e300, 1.7976931348623157e308,
        -1.7976931348623157e308]


def _render(v, style):
    if style == 'int' and v == math.floor(v) and abs(v) < 1e15:
        s = str(int(v))
    else:
        s = repr(v)
    return s


@st.composite
def num_text(draw, negative=None):
    cls = draw(st.sampled_from(['zero', 'small', 'huge', 'prob', 'thr', 'thr', 'int', 'neg', 'float'] * 3 + ['overflow']))
    if cls == 'overflow' and negative is not True:
        # numerals beyond the double range (and the literal infinities): float() parses them to +-inf
        return draw(st.sampled_from(['1e400', '-1e999', 'inf', '-inf', '1e309']))
    if negative is True:
        cls = draw(st.sampled_from(['neg', 'neg', 'negsmall', 'neghuge']))
    if cls == 'zero':
        return draw(st.sampled_from(ZERO_FORMS))
    if cls == 'small':
        v = draw(st.sampled_from(SMALL))
    elif cls == 'huge':
        v = draw(st.sampled_from(HUGE))
    elif cls == 'prob':
        v = draw(st.one_of(st.integers(0, 100).map(lambda i: i / 100), st.integers(0, 10**6).map(lambda i: i / 10**6)))
    elif cls == 'thr':
        v = draw(st.sampled_from(THRESHOLD_VALUES))
    elif cls == 'int':
        v = float(draw(st.integers(0, 200)))
    elif cls == 'neg':
        v = -draw(st.one_of(st.integers(1, 200).map(float), st.integers(1, 100).map(lambda i: i / 100),
                            st.sampled_from([1.0, 0.5, 2.0, 1.0000000001, 0.9999999999])))
    elif cls == 'negsmall':
        v = draw(st.sampled_from([x for x in SMALL if x < 0]))
    elif cls == 'neghuge':
        v = draw(st.sampled_from([x for x in HUGE if x < 0]))
    else:
        v = draw(st.floats(min_value=-1e6, max_value=1e6, allow_nan=False, allow_infinity=False))
    s = _render(v, draw(st.sampled_from(['repr', 'int', 'int'])))
    if draw(st.integers(0, 5)) == 0:
        s = '"' + s + '"'
    return s


_NUM = num_text()
_NUM_NEG = num_text(negative=True)


@st.composite
def _compose(draw, total, parts):
    """positive integers summing to total (parts <= total)"""
    parts = max(1, min(parts, total))
    if parts == 1:
        return [total]
    cuts = sorted(draw(st.lists(st.integers(1, total - 1), min_size=parts - 1, max_size=parts - 1, unique=True)))
    edges = [0] + cuts + [total]
    return [edges[i + 1] - edges[i] for i in range(parts)]


@st.composite
def column(draw, name, n):
    mode = draw(st.sampled_from(['free', 'free', 'maj', 'maj', 'neg', 'neg', 'single', 'band']))
    band = [c for c in range(1, n) if 3 * n < 4 * c and 5 * c < 4 * n]       # counts strictly between 75 % and 80 % of the rows
    if mode == 'band' and not band:
        mode = 'maj'
    if mode == 'band':
        # one value (often the empty cell / a zero) holds a share strictly between the two thresholds of the keep/drop rule
        top = draw(st.sampled_from(band))
        rest = draw(_compose(n - top, draw(st.integers(1, 5))))
        counts = [top] + rest
        vals = [draw(st.one_of(st.sampled_from(['', '', '0', '""']), _NUM))] + [draw(_NUM) for _ in rest]
    elif mode == 'single' or n == 1:
        vals, counts = [draw(_NUM)], [n]
    elif mode == 'free':
        k = draw(st.integers(2, 8))
        counts = draw(_compose(n, k))
        vals = [draw(_NUM) for _ in counts]
    elif mode == 'maj':
        top = max(1, min(n - 1, (4 * n) // 5 + draw(st.sampled_from([-1, 0, 0, 1]))))
        rest = draw(_compose(n - top, draw(st.integers(1, 5))))
        counts = [top] + rest
        vals = [draw(_NUM) for _ in counts]
    else:
        neg = max(1, min(n - 1, (3 * n) // 4 + draw(st.sampled_from([-1, 0, 0, 1]))))
        cneg = draw(_compose(neg, draw(st.integers(1, 4))))
        cpos = draw(_compose(n - neg, draw(st.integers(1, 4))))
        counts = cneg + cpos
        vals = [draw(_NUM_NEG) for _ in cneg] + [draw(_NUM) for _ in cpos]
    return {'name': name, 'vals': vals, 'counts': counts, 'seed': draw(st.integers(0, 2**32 - 1))}


NAME_POOL = ['f0', 'f1', 'f11', 'price', 'ctr-7d', 'x y', 'Ünï', 'a.b', 'country_tr_clicks', 'x_tr_sqrt']   # incl. names carrying the _tr_ marker


@st.composite
def frame_case(draw, multi_preset, max_rows, max_cols):
    if multi_preset:
        presets = draw(st.lists(st.sampled_from(PRESETS), min_size=1, max_size=3))
    else:
        presets = [draw(st.sampled_from(PRESETS + ['fw-transformers']))]
    n = draw(st.one_of(st.integers(2, 12), st.sampled_from([4, 5, 8, 10, 20, 40]), st.integers(2, max_rows)))
    n = min(n, max_rows)
    ncols = draw(st.integers(1, max_cols))
    names = draw(st.lists(st.sampled_from(NAME_POOL), min_size=ncols, max_size=ncols, unique=True))
    cols = [draw(column(nm, n)) for nm in names]
    case = {'presets': presets, 'n': n, 'cols': cols, 'label_first': draw(st.booleans())}
    if multi_preset:
        # earlier constructions in the same process (a history): they must not change what this preset list selects
        case['history'] = draw(st.lists(st.lists(st.sampled_from(PRESETS), min_size=1, max_size=3), max_size=2))
    return case


@st.composite
def long_frame_case(draw):
    """Frames of 33 000 - 70 000 rows (more than any internal row block): whole-column quantities such as max(X) are taken over
    the whole column."""
    n = draw(st.integers(33_000, 70_000))
    k = draw(st.integers(2, 4))
    counts = draw(_compose(n, k))
    if draw(st.integers(0, 2)) > 0:
        # a value that grows along the file (a counter, a timestamp bucket): rows stay in this order. The smallest value fills
        # more than 2^15 rows but less than 80 % of the file, so whole-column results have at least two frequent values
        n = max(n, 45_000)
        c0 = draw(st.integers(32_768 + 1, (78 * n) // 100))
        counts = [c0] + draw(_compose(n - c0, k - 1))
        vals = sorted(draw(st.lists(st.sampled_from(['1', '3', '40', '500', '2000', '123456.5', '0.5']), min_size=k, max_size=k, unique=True)),
                      key=float)
        col = {'name': draw(st.sampled_from(NAME_POOL)), 'vals': vals, 'counts': counts, 'seed': 0, 'keep_order': True}
        if k >= 3 and draw(st.booleans()):
            # a second numeric column with the same first and last cells but another body (same values, other run lengths)
            c0b = draw(st.integers(32_768 + 1, (78 * n) // 100))
            countsb = [c0b] + draw(_compose(n - c0b, k - 1))
            if countsb != counts:
                colb = {'name': draw(st.sampled_from([nm for nm in NAME_POOL if nm != col['name']])), 'vals': vals, 'counts': countsb, 'seed': 0,
                        'keep_order': True}
                return {'presets': [draw(st.sampled_from(['default', 'minimal']))], 'n': n, 'cols': [col, colb], 'label_first': draw(st.booleans())}
    else:
        # one cell holds a value far above the others: it sits in one row block only
        vals = [draw(_NUM) for _ in counts]
        counts[0] = max(1, counts[0] - 1)
        col = {'name': draw(st.sampled_from(NAME_POOL)), 'vals': vals + [draw(st.sampled_from(['5000', '123456.5', '1e9']))],
               'counts': counts + [n - sum(counts)], 'seed': draw(st.integers(0, 2**32 - 1))}
    return {'presets': [draw(st.sampled_from(['default', 'minimal']))], 'n': n, 'cols': [col], 'label_first': draw(st.booleans())}


# ---- oracle ----------------------------------------------------------------------------------------

def build_cells(col, n):
    cells = []
    for v, c in zip(col['vals'], col['counts']):
        cells += [v] * c
    if len(cells) != n:
        raise HarnessError(f'column {col["name"]} has {len(cells)} cells, expected {n}')
    if col.get('keep_order'):
        return cells
    perm = np.random.Generator(np.random.PCG64(col['seed'])).permutation(n).tolist()
    return [cells[i] for i in perm]


def _keep(groups, n, nan_count):
    """groups: list of group sizes (NaN group included)"""
    return len(groups) > 1 and 5 * max(groups) < 4 * n and 4 * nan_count < 3 * n


def _close(a, b):
    if a == b:
        return True
    if a in (INF, -INF) or b in (INF, -INF):
        return False
    return abs(a - b) <= REL * max(abs(a), abs(b))


def verdict(per_input, n):
    """per_input: list of (xkey, count, value, fuzzy, fragile) for the distinct inputs of a column.
    Returns (keep | None when undecidable, reason)."""
    if any(fr for (_, _, _, _, fr) in per_input):
        return None, 'not-determined'
    nan_count = sum(c for (_, c, v, _, _) in per_input if v != v)
    exact, fine = {}, {}
    for xk, c, v, fz, _ in per_input:
        key = 'nan' if v != v else repr(v)
        exact[key] = exact.get(key, 0) + c
        fk = (key, xk) if fz else (key, None)
        fine[fk] = fine.get(fk, 0) + c
    # coarse: chain-merge numerically indistinguishable values (incl. -0.0 / 0.0)
    finite = sorted(((float(k), c) for k, c in exact.items() if k != 'nan'), key=lambda t: (t[0], math.copysign(1.0, t[0])))
    coarse = []
    prev = None
    for v, c in finite:
        same_sign_zero = not (prev == 0 and v == 0 and math.copysign(1.0, prev) != math.copysign(1.0, v)) if prev is not None else True
        if prev is not None and _close(prev, v) and same_sign_zero:
            coarse[-1] += c
        else:
            coarse.append(c)
        prev = v
    if nan_count:
        coarse.append(nan_count)
    k_exact = _keep(list(exact.values()), n, nan_count)
    k_fine = _keep(list(fine.values()), n, nan_count)
    k_coarse = _keep(coarse, n, nan_count)
    if k_fine != k_coarse or k_exact != k_fine:
        return None, 'ulp-structure'
    top = max(exact.values())
    if len(exact) <= 1:
        reason = 'single'
    elif 5 * top >= 4 * n:
        reason = 'majority-exact-80' if 5 * top == 4 * n else 'majority'
    elif 4 * nan_count >= 3 * n:
        reason = 'nan-exact-75' if 4 * nan_count == 3 * n else 'nan'
    else:
        reason = 'kept'
        if 5 * (top + 1) >= 4 * n:
            reason = 'kept-just-below-80'
        elif nan_count and 4 * (nan_count + 1) >= 3 * n:
            reason = 'kept-just-below-75'
    return k_exact, reason


def same_value(got, ref):
    if ref != ref:
        return got != got
    if got != got:
        return False
    return _close(got, ref)


def oracle(case, rec, preset_clause=False):
    reset_vault()
    presets, n, cols = case['presets'], case['n'], case['cols']
    for earlier in case.get('history', []):
        # a history of earlier constructions in the same process must not influence this one
        FeatureTransformerGeneric({c['name'] for c in cols}, preset=','.join(earlier))
    expected_names = []
    for p in presets:
        for k in VAULT[p]:
            if k not in expected_names:
                expected_names.append(k)
    refs = {}
    for nm in expected_names:
        f = reference_for(nm)
        if f is None:
            raise Violation(f'transformer name {nm!r} of the presets {presets} names no formula this check can derive '
                            f'(not one of the ten default names, not an fw name)', kind='C12/unknown-name')
        refs[nm] = f

    cells = {c['name']: build_cells(c, n) for c in cols}
    label = [('a', 'b', '')[i % 3] + str(i % 2) for i in range(n)]
    order = ([('label', label)] if case['label_first'] else []) + [(c['name'], cells[c['name']]) for c in cols]
    if not case['label_first']:
        order.append(('label', label))
    rows = [[col[i] for _, col in order] for i in range(n)]
    colnames = [nm for nm, _ in order]
    df = pd.DataFrame(rows, columns=colnames)

    with np.errstate(all='ignore'), warnings.catch_warnings():
        warnings.simplefilter('ignore')
        tr = FeatureTransformerGeneric({c['name'] for c in cols}, preset=','.join(presets))
        out = tr.construct_new_features(df.copy())
        if case.get('reuse', True):
            # the same transformer object used for a second mini-batch (same rows): same result, no state carried over
            try:
                out2 = tr.construct_new_features(df.copy())
            except Exception as e:  # noqa: BLE001
                raise Violation(f'second construct_new_features call on the same transformer object raised {type(e).__name__}: {e}',
                                kind='C12/instance-reuse')
            if list(out2.columns) != list(out.columns) or not out2.astype(str).equals(out.astype(str)):
                raise Violation(f'second construct_new_features call on the same transformer object gives a different frame: '
                                f'{len(out.columns)} vs {len(out2.columns)} columns', kind='C12/instance-reuse')

        if case.get('reuse', True) and n <= 400:
            # ... and a transformer object that saw ANOTHER mini-batch of the same columns first (all cells negative: roots and logs
            # are degenerate there): what is emitted for this batch depends on this batch alone
            tr3 = FeatureTransformerGeneric({c['name'] for c in cols}, preset=','.join(presets))
            earlier = df.copy()
            for c in cols:
                earlier[c['name']] = ['-5', '-7'] * (n // 2) + ['-5'] * (n % 2)
            try:
                tr3.construct_new_features(earlier)
                out3 = tr3.construct_new_features(df.copy())
            except Exception as e:  # noqa: BLE001
                raise Violation(f'construct_new_features after an earlier batch on the same transformer object raised {type(e).__name__}: {e}',
                                kind='C12/instance-reuse')
            if list(out3.columns) != list(out.columns) or not out3.astype(str).equals(out.astype(str)):
                missing = [c for c in out.columns if c not in out3.columns]
                raise Violation(f'after an earlier batch (negative cells) on the same transformer object this batch gives '
                                f'{len(out3.columns)} columns, a fresh object {len(out.columns)}; missing {missing[:4]}', kind='C12/instance-reuse')

    union = set(expected_names)
    last = set(VAULT[presets[-1]])
    if preset_clause:
        rec.nt(len(presets) >= 2 and union != last, key=[presets, [c['vals'] for c in cols], [c['counts'] for c in cols]])
        rec.cls('presets=' + ','.join(presets))
        if case.get('history'):
            rec.cls('with-construction-history')
    rec.cls('n<=12' if n <= 12 else 'n<=40' if n <= 40 else 'n>40')

    # original columns untouched, in place
    out_cols = list(out.columns)
    if out_cols[:len(colnames)] != colnames:
        raise Violation(f'original columns changed: {out_cols[:len(colnames)]} != {colnames}')
    if len(set(out_cols)) != len(out_cols):
        raise Violation(f'duplicate column names in the output: {sorted(x for x in out_cols if out_cols.count(x) > 1)[:5]}')
    if out.shape[0] != n:
        raise Violation(f'row count changed: {out.shape[0]} != {n}')
    for nm, col in order:
        if out[nm].tolist() != col:
            raise Violation(f'original column {nm!r} was modified')
    new_cols = out_cols[len(colnames):]
    allowed = {c['name'] + k: (c['name'], k) for c in cols for k in expected_names}
    for nc in new_cols:
        if nc not in allowed:
            raise Violation(f'emitted column {nc!r} is not <feature><transformer> for any transformer of the presets {presets}')

    any_kept = any_dropped = False
    labels = set()
    for c in cols:
        name = c['name']
        # distinct inputs of the column (by parsed float, sign of zero kept)
        inputs = {}
        for v, cnt in zip(c['vals'], c['counts']):
            x = parse_cell(v)
            xk = repr(x)
            if xk in inputs:
                inputs[xk][1] += cnt
            else:
                inputs[xk] = [x, cnt]
        mx = max(x for x, _ in inputs.values())
        ctx = {'max': mx, 'max_sign_ambiguous': mx == 0 and '0.0' in inputs and '-0.0' in inputs}
        xs = [parse_cell(v) for v in cells[name]]
        for k in expected_names:
            f = refs[k]
            per_input = []
            value_of = {}
            for xk, (x, cnt) in inputs.items():
                v, fz, fr = f(x, ctx)
                per_input.append((xk, cnt, v, fz, fr))
                value_of[xk] = (v, fr)
            keep, reason = verdict(per_input, n)
            emitted = (name + k) in out.columns
            if emitted:
                got = out[name + k].tolist()
                for i, (g, x) in enumerate(zip(got, xs)):
                    rv, fr = value_of[repr(x)]
                    if fr:
                        continue
                    try:
                        gv = float(g)
                    except (TypeError, ValueError):
                        raise Violation(f'column {name + k!r} row {i}: cell {g!r} is not numeric text')
                    if not isinstance(g, str):
                        raise Violation(f'column {name + k!r} row {i}: cell {g!r} is not text')
                    if not same_value(gv, rv):
                        raise Violation(f'column {name + k!r} row {i}: input {cells[name][i]!r} (= {x!r}) gives {g!r}, '
                                        f'the formula named {k!r} gives {rv!r}')
            if keep is None:
                labels.add('excluded:' + reason)
                continue
            labels.add(('kept:' if keep else 'dropped:') + reason if reason not in ('kept',) else 'kept')
            if keep:
                any_kept = True
            else:
                any_dropped = True
            if keep and not emitted:
                hint = ''
                sel = set(getattr(tr, 'transformer_collection', {}) or {})
                if k not in sel:
                    hint = (f'; the preset list {",".join(presets)!r} selected {len(sel)} transformers, the union of the '
                            f'named presets has {len(union)}')
                raise Violation(f'column {name + k!r} was not emitted although the transformed column has '
                                f'{len({("nan" if v != v else repr(v)) for _, _, v, _, _ in per_input})} distinct values, top '
                                f'share < 80% and NaN share < 75% (inputs {c["vals"]} x {c["counts"]}){hint}')
            if emitted and not keep:
                raise Violation(f'column {name + k!r} was emitted although the rule drops it ({reason}); inputs '
                                f'{c["vals"]} x {c["counts"]}, n={n}')
    rec.cls(*sorted(labels))
    if not preset_clause:
        rec.nt(any_kept and any_dropped, key=[presets, [c['vals'] for c in cols], [c['counts'] for c in cols],
                                               [c['seed'] for c in cols]])


def oracle_formula(case, rec):
    oracle(case, rec, preset_clause=False)


def oracle_presets(case, rec):
    oracle(case, rec, preset_clause=True)


ORACLES = {'C12/instance-reuse': oracle_formula, 'C12/long-frame': oracle_formula, 'C12/formula-keepdrop': oracle_formula, 'C12/preset-union': oracle_presets,
           'C12/unknown-name': oracle_formula}


def run(ctx):
    clauses = [
        Clause('C12/formula-keepdrop', lambda: frame_case(False, 200, 3), oracle_formula, quick=1920, thorough=44000,
               quick_shards=12),
        Clause('C12/long-frame', long_frame_case, oracle_formula, quick=12, thorough=96, quick_shards=6, thorough_shards=16),
        Clause('C12/preset-union', lambda: frame_case(True, 40, 2), oracle_presets, quick=400, thorough=10000,
               quick_shards=4),
    ]
    drive(ctx, clauses)
    cl = ctx.stats.classes
    for need in ('dropped:majority-exact-80', 'dropped:nan-exact-75', 'dropped:single', 'kept'):
        ctx.extra.setdefault('boundary_classes', {})[need] = cl.get(need, 0)
    ctx.extra['transformers_per_case'] = {p: len(VAULT[p]) for p in PRESETS}
