"""C08 - streaming equals reference batch semantics with median aggregation."""
from __future__ import annotations

import csv
import io
import json
import math
import os
import re
import shutil
import statistics
import tempfile

import numpy as np
import pandas as pd
from hypothesis import strategies as st

from vlib import stubs
from vlib.harness import Clause, Violation, drive

from outrank import core_ranking as cr
from outrank import task_ranking as tr

ID = 'C08'
RULE = ('CSV files built by construction: 2-5 columns; (minibatch_size m, subsampling s) drawn first, then the number of selected '
        'valid rows is k*m + t with t from the boundary set {0,1,m-1,1023,1024,1025,1026} (large-m regime, m in 1026..1500) or '
        'arbitrary t < m (small-m regime, m in 1..60, many batches, tail never used); malformed rows (too few / too many fields, '
        'empty line, single field) at generated positions incl. first/last, on and off the subsampling grid; quoted cells with '
        'commas; data rows whose text equals the header line. Heuristic MI-numba-randomized, max-value-coverage or Constant (for which the '
        'checkpoint clauses are not asserted: the code only checkpoints scoring heuristics), target-only or pairwise, annotated or plain names, '
        'interaction order 1 or 2 (constructed features named "a AND b"). '
        'Non-trivial = >=2 batches, or a tail decision within 2 of 1024, or >=1 malformed row on the subsampling grid.')
ASSUMPTIONS = ['cell values are ASCII: csv-raw reads the header with the default encoding and the rows as latin1, so non-ASCII bytes are '
               'an encoding question outside the statement',
               'per-batch triplets of the model are obtained by applying the batch scorer (compute_batch_ranking) to each MODEL batch '
               '(scoring itself is C05, feature construction C10/C11)',
               'gzip input and multi-file globs are not generated (not in the statement)']

VALUES = ['a', 'b', 'p\x0cq', 'x,y', '', 'u\x0bv', '1', '"q"', 'm\x1cn', 'c', '2', 'p q', 'r\x1ds']   # ASCII only (the header is read as UTF-8, the rows as latin1); incl. FF, VT, FS, GS inside a field


@st.composite
def case_strategy(draw):
    regime = draw(st.sampled_from(['small', 'small', 'large']))
    ncols = draw(st.integers(2, 5))
    s = draw(st.one_of(st.integers(1, 4), st.integers(1, 4), st.sampled_from([5, 6, 7, 10])))
    if regime == 'small':
        m = draw(st.integers(1, 60))
        k = draw(st.integers(0, 6))
        t = draw(st.integers(0, m - 1))
    else:
        m = draw(st.integers(1026, 1500))
        k = draw(st.integers(0, 2))
        t = draw(st.sampled_from([0, 1, m - 1, 1023, 1024, 1025, 1026]))
        t = min(t, m - 1)
    nbad = draw(st.one_of(st.integers(0, 4), st.integers(0, 4), st.integers(0, 4), st.integers(33, 70)))    # also more than any small report queue holds
    bad = [[draw(st.sampled_from(['few', 'many', 'empty', 'single', 'openquote', 'cr'])),
            draw(st.sampled_from(['first', 'last', 'rand'])), draw(st.integers(0, 10**6))] for _ in range(nbad)]
    heuristic = draw(st.sampled_from(['MI-numba-randomized', 'MI-numba-randomized', 'max-value-coverage', 'Constant', 'correlation-Pearson']))
    if heuristic == 'correlation-Pearson' and m < 2:
        m = 2          # scipy's pearsonr is defined for at least two rows
        t = min(t, m - 1)
    return {'ncols': ncols, 'm': m, 's': s, 'k': k, 't': t, 'bad': bad, 'seed': draw(st.integers(0, 2**32 - 1)),
            # one feature column is exploded into per-token indicator columns; a token that first occurs late in the file makes the
            # set of scored pairs differ between mini-batches
            'explode': draw(st.integers(0, 3)) == 0 and ncols >= 2,
            'trail': draw(st.integers(0, 3)), 'offgrid_bad': draw(st.booleans()), 'final_newline': draw(st.sampled_from([True, True, False])),
            'heuristic': heuristic,
            'header_rows': draw(st.lists(st.integers(0, 10**6), max_size=2)) if draw(st.integers(0, 3)) == 0 else [],
            'pairwise': draw(st.booleans()), 'annot': draw(st.booleans()), 'label_pos': draw(st.integers(0, ncols - 1)),
            'order': draw(st.sampled_from([1, 1, 2])) if regime == 'small' else 1}


@st.composite
def many_triplets_case(draw):
    """40 columns in pairwise mode over 150-170 mini-batches: more than 2^18 (pair, batch) scores are aggregated (thorough tier only: the
    per-batch re-aggregation makes such a run take about a minute)."""
    return {'ncols': 40, 'm': 2, 's': 1, 'k': draw(st.integers(155, 170)), 't': 0, 'bad': [], 'seed': draw(st.integers(0, 2**32 - 1)),
            'explode': False, 'trail': 0, 'offgrid_bad': False, 'final_newline': True, 'heuristic': 'max-value-coverage', 'header_rows': [],
            'pairwise': True, 'annot': False, 'label_pos': draw(st.integers(0, 39)), 'order': 1}


@st.composite
def long_case_strategy(draw):
    """Files of 66 000 - 140 000 lines (more than any 2^16-line read block) with subsampling factors that do not divide a power of two."""
    ncols = draw(st.integers(2, 3))
    if draw(st.integers(0, 3)) == 0:
        # one huge mini-batch setting: every row is consumed, the tail (more than 100 000 rows) is the only batch
        s = 1
        total = draw(st.integers(100_100, 125_000))
        V = total
        m = draw(st.sampled_from([150_000, 200_000, 2**17]))
    else:
        s = draw(st.sampled_from([3, 5, 6, 7, 10]))
        total = draw(st.integers(66000, 140000))
        V = total // s
        m = draw(st.integers(3000, 12000))
    nbad = draw(st.integers(0, 3))
    bad = [[draw(st.sampled_from(['few', 'many', 'empty', 'single', 'openquote'])),
            draw(st.sampled_from(['first', 'last', 'rand'])), draw(st.integers(0, 10**6))] for _ in range(nbad)]
    return {'ncols': ncols, 'm': m, 's': s, 'k': V // m, 't': V % m, 'bad': bad, 'seed': draw(st.integers(0, 2**32 - 1)),
            'trail': draw(st.integers(0, 3)), 'offgrid_bad': draw(st.booleans()), 'final_newline': draw(st.sampled_from([True, True, False])),
            'heuristic': 'MI-numba-randomized', 'header_rows': [], 'pairwise': draw(st.booleans()), 'annot': False,
            'label_pos': draw(st.integers(0, ncols - 1)), 'order': 1, 'long': True}


def render(row):
    buf = io.StringIO()
    csv.writer(buf, lineterminator='').writerow(row)
    return buf.getvalue()


def build_lines(case):
    """-> (header list, data lines as text without newline)."""
    rng = np.random.Generator(np.random.PCG64(int(case['seed'])))
    ncols, s = case['ncols'], case['s']
    cols = [f'f{i}' for i in range(ncols)]
    cols[case['label_pos']] = 'label'
    V = case['k'] * case['m'] + case['t']
    nv = len(VALUES)

    made = [0]
    ex_col = next((j for j, c in enumerate(cols) if c != 'label'), None) if case.get('explode') else None
    late_after = max(1, (V * s) // 2)

    def valid_row():
        base = int(rng.integers(0, 3))
        row = [VALUES[(base + int(rng.integers(0, 2)) * (j + 1)) % nv] if j else VALUES[base] for j in range(ncols)]
        made[0] += 1
        if ex_col is not None and made[0] > late_after and rng.random() < 0.5:
            row[ex_col] = (row[ex_col] + '-zz') if row[ex_col] else 'zz'
        return row

    def plain_cell():
        return ['a', 'b', 'c', '1', '2'][int(rng.integers(0, 5))]

    def malformed(kind):
        r = valid_row()
        if kind == 'few':
            return render(r[:-1]) if ncols > 1 else ''
        if kind == 'many':
            return render(r + ['extra'])
        if kind == 'empty':
            return ''
        if kind == 'cr':
            # a bare carriage return inside a row (old-Mac line break, stray CR): the text reader ends a line there, so this is two lines
            parts = [plain_cell() for _ in range(ncols + 1)]
            cut = int(rng.integers(1, ncols + 1))
            return ','.join(parts[:cut]) + '\r' + ','.join(parts[cut:])
        if kind == 'openquote':
            # a stray quote opening a (non-last) field and never closed: the rest of THIS line is one field -> too few fields
            j = int(rng.integers(0, ncols - 1))
            plain = ['a', 'b', 'c', '1', '2']
            parts = [plain[int(rng.integers(0, 5))] for _ in range(ncols)]
            parts[j] = '"' + parts[j]
            return ','.join(parts)
        return 'lonely' if ncols != 1 else 'a,b'
    selected = [render(valid_row()) for _ in range(V)]
    for r in case.get('header_rows', []):
        if selected:
            selected[r % len(selected)] = render(cols)     # a well-formed data row whose values happen to be the column names
    for kind, where, r in case['bad']:
        pos = 0 if where == 'first' else len(selected) if where == 'last' else (r % (len(selected) + 1))
        selected.insert(pos, malformed(kind))
    lines = []
    for sel in selected:
        for _ in range(s - 1):
            if case['offgrid_bad'] and rng.random() < 0.3:
                lines.append(malformed(['few', 'many', 'empty', 'openquote'][int(rng.integers(0, 4))]))
            else:
                lines.append(render(valid_row()))
        lines.append(sel)
    for _ in range(min(case['trail'], s - 1)):
        lines.append(render(valid_row()))
    return cols, lines


def batch_model(lines, m, s, ncols):
    """Reference semantics of the statement."""
    batches, buf, invalid = [], [], 0
    for pos, line in enumerate(lines, start=1):
        if pos % s != 0:
            continue
        fields = list(csv.reader([line + '\n'])).pop()
        if len(fields) == ncols:
            buf.append(fields)
        else:
            invalid += 1
        if len(buf) >= m:
            batches.append(buf)
            buf = []
    if len(buf) > 1024:
        batches.append(buf[:m])
    return batches, invalid


def median_table(triplet_lists):
    acc = {}
    for tl in triplet_lists:
        for a, b, sc in tl:
            acc.setdefault((a, b), []).append(float(sc))
    # an undefined per-batch score (NaN: e.g. Pearson on a column that is constant inside that batch) does not take part in the median
    out = {}
    for k, v in acc.items():
        d = [x for x in v if x == x]
        out[k] = statistics.median(d) if d else math.nan
    return out


class CapLog:
    def __init__(self):
        self.msgs = []

    def info(self, msg, *a, **k):
        self.msgs.append(str(msg))

    warning = error = debug = info


class SpyPool(stubs.InlinePool):
    """Reads the on-disk checkpoint at the start of every batch's scoring."""

    def __init__(self):
        super().__init__()
        self.checkpoints = []

    def amap(self, f, xs):
        self.checkpoints.append(read_checkpoint())
        return super().amap(f, xs)


def read_checkpoint():
    if not os.path.exists('ranking_checkpoint_tmp.tsv'):
        return None
    df = pd.read_csv('ranking_checkpoint_tmp.tsv', sep='\t', keep_default_na=False, na_values=[])
    return {(str(r.FeatureA), str(r.FeatureB)): (float(r.Score) if str(r.Score) != '' else math.nan) for r in df.itertuples()}    # NaN is written as an empty cell


def same_table(a, b, tol=1e-9):
    if a is None or b is None:
        return a is None and (b is None or len(b) == 0) or (b is None and len(a) == 0)
    if set(a) != set(b):
        return False
    return all((a[k] != a[k] and b[k] != b[k]) or abs(a[k] - b[k]) <= tol for k in a)


def strip_annot(name, cols):
    for c in sorted(cols, key=len, reverse=True):
        if name == c or name.startswith(c + '-('):
            return c
    return name


def oracle(case, rec):
    cols, lines = build_lines(case)
    final_newline = case.get('final_newline', True)
    if not final_newline and lines and lines[-1] == '':
        # an empty last line without terminator is not a line of the file: the text is the remaining lines, each terminated
        lines = lines[:-1]
        final_newline = True
    m, s, ncols = case['m'], case['s'], case['ncols']
    if any('\r' in ln for ln in lines):
        # universal newlines: a bare CR ends a line too; the reference works on the lines the text reader sees
        rec.cls('bare-CR-inside-a-row')
        text = '\n'.join(lines) + ('\n' if final_newline else '')
        model_lines = re.split(r'\r\n|\r|\n', text)
        if model_lines and model_lines[-1] == '':
            model_lines = model_lines[:-1]
    else:
        model_lines = lines
    batches, invalid = batch_model(model_lines, m, s, ncols)
    V = case['k'] * m + case['t']
    tail_len = V - (V // m) * m if m else 0
    on_grid_bad = len(case['bad'])
    rec.nt(len(batches) >= 2 or abs(case['t'] - 1024) <= 2 or on_grid_bad >= 1, key=case)
    rec.cls('batches=%s' % (len(batches) if len(batches) < 3 else '3+'), 'm-large' if m > 1024 else 'm-small',
            'tail>1024' if case['t'] > 1024 else 'tail==1024' if case['t'] == 1024 else 'tail<1024')
    if on_grid_bad:
        rec.cls('malformed-on-grid')
    if case.get('header_rows'):
        rec.cls('data-row-equal-to-header')
    if not final_newline:
        rec.cls('no-final-newline')
    rec.cls('h=' + case['heuristic'], 's=%d' % s if s <= 4 else 's>=5')
    if len(lines) > 65536:
        rec.cls('file>65536-lines')
    if case.get('explode'):
        rec.cls('exploded-multivalue-column')
    if len(case['bad']) > 32:
        rec.cls('malformed-on-grid>32')
    if any(b[0] == 'openquote' for b in case['bad']):
        rec.cls('malformed:unclosed-quote')
    tmp = tempfile.mkdtemp(prefix='c08-')
    old_cwd = os.getcwd()
    orig_cbr = cr.compute_batch_ranking
    orig_pool = tr.Pool
    try:
        os.chdir(tmp)
        os.makedirs('data')
        with open('data/data.csv', 'w', encoding='latin1', newline='') as fh:
            fh.write(','.join(cols) + '\n')
            for li, ln in enumerate(lines):
                last = li == len(lines) - 1
                fh.write(ln + ('' if last and not final_newline else '\n'))
        args = stubs.make_args(heuristic=case['heuristic'], target_ranking_only='False' if case['pairwise'] else 'True',
                               minibatch_size=m, subsampling=s, data_path=os.path.join(tmp, 'data'), data_source='csv-raw',
                               output_folder=os.path.join(tmp, 'out'),
                               include_cardinality_in_feature_names='True' if case['annot'] else 'False',
                               interaction_order=int(case.get('order', 1)),
                               **({'explode_multivalue_features': next(c for c in cols if c != 'label')} if case.get('explode') else {}))
        # ---- phase 1: direct call of the streaming loop with spies ---------------------------------
        seen_batches = []

        def spy_cbr(line_tmp_storage, *a, **k):
            seen_batches.append([list(r) for r in line_tmp_storage])
            return orig_cbr(line_tmp_storage, *a, **k)
        cr.compute_batch_ranking = spy_cbr
        stubs.reset_globals()
        pool = SpyPool()
        log = CapLog()
        res = cr.estimate_importances_minibatches(
            os.path.join(tmp, 'data', 'data.csv'), cols, None, set(), args=args, data_encoding='latin1',
            cpu_pool=pool, delimiter=',', logger=log)
        cr.compute_batch_ranking = orig_cbr
        final_ckpt = read_checkpoint()
        if seen_batches != batches:
            nb = len(seen_batches)
            detail = f'{nb} batches of sizes {[len(b) for b in seen_batches]} processed; reference semantics give {len(batches)} ' \
                     f'batches of sizes {[len(b) for b in batches]} (m={m}, s={s}, selected valid rows={V}, tail={case["t"]})'
            if nb == len(batches):
                for bi, (x, y) in enumerate(zip(seen_batches, batches)):
                    if x != y:
                        ri = next((i for i, (p, q) in enumerate(zip(x, y)) if p != q), min(len(x), len(y)))
                        detail += f'; batch {bi + 1} differs at row {ri}: got {x[ri] if ri < len(x) else None} expected {y[ri] if ri < len(y) else None}'
                        break
            raise Violation(detail, kind='C08/rows')
        # invalid-line count
        found = [int(mm.group(1)) for msg in log.msgs for mm in [re.search(r'Detected (\d+) invalid lines', msg)] if mm]
        reported = found[0] if found else 0
        if reported != invalid:
            raise Violation(f'reported {reported} invalid lines, file has {invalid} malformed rows on the subsampling grid',
                            kind='C08/invalid-count')
        # model triplets: the implementation's own scorer on each model batch
        per_batch = []
        stubs.reset_globals()
        for b in batches:
            # the implementation's own batch scorer (feature construction + scoring) on each MODEL batch
            summary, _, _, _ = cr.compute_batch_ranking(b, set(), args, stubs.InlinePool(), cols, CapLog(), stubs.PBar())
            per_batch.append(summary.triplet_scores)
        expected = median_table(per_batch)
        grouped = res[1]
        got = None if grouped is None else {(str(r.FeatureA), str(r.FeatureB)): float(r.Score) for r in grouped.itertuples()}
        if not same_table(got, expected):
            raise Violation(f'aggregated scores differ from the per-pair median over {len(batches)} batches: '
                            f'{_first_diff(got, expected)}', kind='C08/median')
        # checkpoints: at the start of batch j+1 the file holds the median table of batches 1..j
        for j, ck in enumerate(pool.checkpoints if case['heuristic'] != 'Constant' else []):
            exp_j = median_table(per_batch[:j]) if j > 0 else None
            if j == 0:
                continue   # whatever a previous run left is not constrained
            if not same_table(ck, exp_j):
                raise Violation(f'checkpoint read at the start of batch {j + 1} is not the median aggregation of batches 1..{j}: '
                                f'{_first_diff(ck, exp_j)}', kind='C08/checkpoint')
        if batches and case['heuristic'] != 'Constant' and not same_table(final_ckpt, expected):
            raise Violation(f'checkpoint after the last batch is not the median aggregation of all {len(batches)} batches: '
                            f'{_first_diff(final_ckpt, expected)}', kind='C08/checkpoint')
        # ---- phase 2: the ranking task in-process with the owned pool -----------------------------
        tr.Pool = lambda n=None: stubs.InlinePool()
        stubs.reset_globals()
        exited = False
        try:
            tr.outrank_task_conduct_ranking(args)
        except SystemExit:
            exited = True
        out_file = os.path.join(tmp, 'out', 'pairwise_ranks.tsv')
        if not batches:
            if os.path.exists(out_file):
                raise Violation('pairwise_ranks.tsv written although no batch qualified', kind='C08/output')
            return
        if exited or not os.path.exists(out_file):
            raise Violation(f'ranking task wrote no pairwise_ranks.tsv although {len(batches)} batches qualify', kind='C08/output')
        ranks = pd.read_csv(out_file, sep='\t', keep_default_na=False, na_values=[])
        known = sorted({nm for pair in expected for nm in pair})
        got2 = {}
        scores = []
        for r in ranks.itertuples():
            key = (strip_annot(str(r.FeatureA), known), strip_annot(str(r.FeatureB), known))
            if key in got2:
                raise Violation(f'pairwise_ranks.tsv lists the ordered pair {key} twice', kind='C08/output')
            sc_ = float(r.Score) if str(r.Score) != '' else math.nan      # an undefined (NaN) score is written as an empty cell
            got2[key] = sc_
            scores.append(sc_)
        if not same_table(got2, expected, tol=1e-7):
            raise Violation(f'pairwise_ranks.tsv differs from the per-pair median: {_first_diff(got2, expected)}', kind='C08/output')
        if any(scores[i] > scores[i + 1] for i in range(len(scores) - 1)):
            raise Violation('pairwise_ranks.tsv is not in ascending score order', kind='C08/order')
        with open(os.path.join(tmp, 'out', 'combination_estimation_counts.json')) as fh:
            counts = json.load(fh)
        if counts and not case['pairwise'] and not case.get('explode') and set(counts.values()) != {len(batches)}:   # pairwise lists self pairs twice; exploded tokens exist in some batches only
            raise Violation(f'combination_estimation_counts.json reports {sorted(set(counts.values()))} evaluations per pair, '
                            f'{len(batches)} batches were processed with a non-binding cap', kind='C08/counts')
    finally:
        cr.compute_batch_ranking = orig_cbr
        tr.Pool = orig_pool
        os.chdir(old_cwd)
        shutil.rmtree(tmp, ignore_errors=True)


def _first_diff(got, exp):
    if got is None or exp is None:
        return f'got {None if got is None else len(got)} rows, expected {None if exp is None else len(exp)} rows'
    if set(got) != set(exp):
        return f'pairs only in output {sorted(set(got) - set(exp))[:3]}, only in reference {sorted(set(exp) - set(got))[:3]}'
    for k in sorted(got):
        if not ((got[k] != got[k] and exp[k] != exp[k]) or abs(got[k] - exp[k]) <= 1e-9):
            return f'{k}: got {got[k]!r}, reference {exp[k]!r}'
    return 'no difference'


KINDS = ['C08/stream', 'C08/long-file', 'C08/many-triplets', 'C08/rows', 'C08/invalid-count', 'C08/median', 'C08/checkpoint', 'C08/output', 'C08/order', 'C08/counts']
ORACLES = {k: oracle for k in KINDS}


def run(ctx):
    drive(ctx, [Clause('C08/stream', case_strategy, oracle, quick=480, thorough=24000, quick_shards=16),
                Clause('C08/long-file', long_case_strategy, oracle, quick=16, thorough=480, quick_shards=16),
                Clause('C08/many-triplets', many_triplets_case, oracle, quick=0, thorough=4, quick_shards=1, thorough_shards=4)])
