"""C18 - feature summary = per-feature median of label scores, sorted, normalised; per-constituent aggregation."""
from __future__ import annotations

import contextlib
import io
import itertools
import math
import os
import shutil
import tempfile
from types import SimpleNamespace

from hypothesis import strategies as st

from vlib.harness import Rec, Clause, Violation, drive

from outrank.task_summary import outrank_task_result_summary

ID = 'C18'
RULE = ('Generated triplet tables written as <tmp>/pairwise_ranks.tsv: 1..7 base features from a pool with plain names, '
        'names containing the substring AND (BRAND, ANDROID, AND, HANDLE), names with "-", near-label names; annotation '
        '"-(c; v)" on all / no / some names; interaction features " AND ".join(k base names) for interaction order k in 1..3; '
        'per feature one of {(f,label), (label,f), both, duplicated rows, no label row}; 0..2 label-label rows; 0..6 non-label '
        'distractor pairs (incl. self pairs); scores from an integer grid -3..5 (ties), [0,1], [-1,1], [-1000,1000] or constant; '
        'heuristic names with and without "MI"; row order permuted. Oracle recomputes both output files from the structured case. '
        'Non-trivial: singles - at least 3 features with a label row and at least 2 distinct medians; aggregated - interaction '
        'order > 1, at least one interaction feature in the summary and a plain feature whose name contains "AND" in the summary. '
        'Distinct = digest of the case.')
ASSUMPTIONS = ['the label name contains no "-" and no feature other than the label has the label as its pre-dash prefix; constituents '
               'of interactions contain no "-" (the name-(...) convention cannot be parsed otherwise): such cases are generated, '
               'not run, and counted as excluded:ambiguous-*',
               'MI-type heuristic with max == min of the medians (incl. a single feature): the code computes 0/0 = NaN; the statement '
               '(best -> 1, worst -> 0) cannot be met by any output, so only the feature set is checked (excluded:mi-degenerate)',
               'a label-label row makes the label a feature "scored against the label": the summary may list it (current behaviour) or '
               'omit it; scores / normalisation are recomputed for whichever of the two the output shows',
               'names never spelled like a pandas NA marker (NA, null, nan, None ...), never purely numeric, no tab / quote / newline',
               'aggregated table is checked against the scores written to feature_singles.tsv (the scores of the summary); '
               'tolerance 1e-9 * max(1, |expected|); file columns are read by position (name, score)']

LABELS = ['label', 'y', 'is_click', 'LABEL', 'label', 'clicked(7d)', 'y[t+1]', 'conv+1', 'cost$', 'a.b|c']     # also names with regex metacharacters
BASE_POOL = ['a', 'b', 'c', 'f1', 'f2', 'f10', 'BRAND', 'ANDROID', 'AND', 'HANDLE', 'brand', 'user_id', 'label2', 'labels',
             'Label', 'x y', 'price(usd)', 'f1_tr_sqrt', 'é', 'y', 'label', 'z;9', 'RAND_and', 'q']
DASH_POOL = ['user-id', 'a-b', 'BRAND-NEW', 'x-(1; 2)']
MI_HEUR = ['MI-numba-randomized', 'MI', 'AMI', 'MI-numba-3mr']
OTHER_HEUR = ['surrogate-SGD', 'surrogate-SVM', 'max-value-coverage', 'correlation-Pearson', 'Constant']
SCORE_MODES = ['grid'] * 3 + ['unit', 'signed', 'wide'] * 2 + ['const', 'tiny', 'nearequal']

KNOWN_PLAIN_AND = False  # set in run() when KNOWN_FINDINGS.txt lists key=plain-name-containing-AND


# ---- generator ---------------------------------------------------------------------------------------

def _score(mode):
    if mode == 'tiny':        # MI estimates of the order 1e-9: distinct, but "close" for absolute tolerances
        return st.integers(1, 9).map(lambda k: k * 1e-9)
    if mode == 'nearequal':   # near-equal features differing in the 6th significant digit
        return st.integers(0, 9).map(lambda k: 0.73 + k * 1e-6)
    if mode == 'grid':
        return st.integers(-3, 5).map(float)
    if mode == 'unit':
        return st.floats(0.0, 1.0, allow_nan=False).map(lambda x: round(x, 6))
    if mode == 'signed':
        return st.floats(-1.0, 1.0, allow_nan=False).map(lambda x: round(x, 6) + 0.0)
    if mode == 'wide':
        return st.floats(-1000.0, 1000.0, allow_nan=False).map(lambda x: round(x, 3) + 0.0)
    return st.just(0.25)


@st.composite
def table_case(draw, orders=(1, 2, 3), and_bias=False):
    label = draw(st.sampled_from(LABELS))
    pool = [b for b in BASE_POOL if b != label]
    special = draw(st.sampled_from(['none'] * 16 + ['dash', 'dash', 'ambiguous']))
    nbase = draw(st.sampled_from([1, 2, 2, 3, 3, 4, 4, 5, 6, 7]))
    bases = draw(st.lists(st.sampled_from(pool), min_size=nbase, max_size=nbase, unique=True))
    if and_bias and not any('AND' in b for b in bases) and draw(st.integers(0, 3)) > 0:
        bases[draw(st.integers(0, nbase - 1))] = draw(st.sampled_from(['BRAND', 'ANDROID', 'AND', 'HANDLE']))
        bases = list(dict.fromkeys(bases))
    if special == 'dash':
        bases.append(draw(st.sampled_from(DASH_POOL)))
    elif special == 'ambiguous':
        bases.append(label + draw(st.sampled_from(['-x', '-(old)', '-'])))
    order = draw(st.sampled_from(list(orders)))
    combos = []
    if order > 1 and len(bases) >= order:
        allc = list(itertools.combinations(range(len(bases)), order))
        combos = draw(st.lists(st.sampled_from(allc), unique=True, max_size=min(len(allc), 12)))
        if draw(st.booleans()):
            combos = allc[:15]
        # interactions of another size than the flag (e.g. combinations taken from a reference model) are interactions too
        if draw(st.integers(0, 2)) == 0:
            other = 5 - order if order in (2, 3) else 2
            if len(bases) >= other:
                allo = list(itertools.combinations(range(len(bases)), other))
                combos = combos + draw(st.lists(st.sampled_from(allo), unique=True, max_size=min(len(allo), 4)))
    ann_mode = draw(st.sampled_from(['all', 'all', 'none', 'mixed']))

    def ann():
        if ann_mode == 'none' or (ann_mode == 'mixed' and draw(st.booleans())):
            return None
        return [draw(st.integers(1, 500)), draw(st.sampled_from([100, 99, 50, 0]))]
    entities = [{'parts': [b], 'ann': ann()} for b in bases]
    entities += [{'parts': [bases[i] for i in c], 'ann': ann()} for c in combos]
    if combos and draw(st.integers(0, 2)) == 0:
        # the same combination listed in another constituent order as well (e.g. reference-model combinations, which are stored sorted,
        # next to the column-order ones): two distinct rows of the table
        for c in draw(st.lists(st.sampled_from(combos), unique=True, min_size=1, max_size=3)):
            entities.append({'parts': [bases[i] for i in reversed(c)], 'ann': ann()})
    score = _score(draw(st.sampled_from(SCORE_MODES)))
    rows = []
    for ei in range(len(entities)):
        mode = draw(st.sampled_from(['fl', 'fl', 'lf', 'both', 'dup', 'dup', 'none']))
        if mode in ('fl', 'both'):
            rows.append([ei, -1, draw(score)])
        if mode in ('lf', 'both'):
            rows.append([-1, ei, draw(score)])
        if mode == 'dup':
            for _ in range(draw(st.integers(2, 5))):
                rows.append([ei, -1, draw(score)] if draw(st.booleans()) else [-1, ei, draw(score)])
    for _ in range(draw(st.integers(0, 2))):
        rows.append([-1, -1, draw(score)])
    for _ in range(draw(st.integers(0, 6))):
        rows.append([draw(st.integers(0, len(entities) - 1)), draw(st.integers(0, len(entities) - 1)), draw(score)])
    rows = draw(st.permutations(rows)) if rows else rows
    label_alt = None
    if draw(st.integers(0, 3)) == 0 and rows:
        # the label may be spelled in two ways in one table (plain and annotated, or two annotations from concatenated runs)
        label_alt = draw(st.sampled_from(['plain', [2, 99], [3, 100]]))
        rows = [r for r in rows if not (r[0] < 0 and r[1] < 0)]      # label-label rows would be listed under either spelling
        rows = [[(-2 if (x == -1 and draw(st.booleans())) else x) for x in r[:2]] + [r[2]] for r in rows]
    return {'label': label, 'label_ann': ann(), 'label_alt': label_alt, 'entities': entities, 'rows': [list(r) for r in rows],
            'heuristic': draw(st.sampled_from(MI_HEUR + MI_HEUR + OTHER_HEUR)), 'order': order,
            'int_scores': draw(st.booleans())}


def singles_strategy():
    return table_case()


def aggregated_strategy():
    return table_case(orders=(2, 2, 3), and_bias=True)


# ---- running the code under test -----------------------------------------------------------------

def _full(ent):
    name = ' AND '.join(ent['parts'])
    if ent['ann'] is not None:
        name += '-(%d; %d)' % tuple(ent['ann'])
    return name


def _ambiguity(case):
    label = case['label']
    if '-' in label:
        return 'excluded:ambiguous-label-with-dash'
    for e in case['entities']:
        if len(e['parts']) == 1 and e['parts'][0].split('-')[0] == label:
            return 'excluded:ambiguous-prefix-equals-label'
        if len(e['parts']) > 1 and (any('-' in p for p in e['parts']) or e['parts'][0] == label):
            return 'excluded:ambiguous-constituent-with-dash'
    return None


def _fmt(score, int_scores):
    if int_scores and float(score).is_integer():
        return str(int(score))
    return repr(float(score))


def _parse(path):
    """-> list of (name, score) read by position; [] for an empty table."""
    with open(path, encoding='utf-8') as fh:
        text = fh.read()
    lines = [l for l in text.split('\n')]
    out = []
    for line in lines[1:]:
        if line == '':
            continue
        cells = line.split('\t')
        if len(cells) != 2:
            raise Violation(f'{os.path.basename(path)}: row {line!r} does not have 2 cells')
        out.append((cells[0], float(cells[1]) if cells[1] != '' else math.nan))
    return out


def run_summary(case):
    """Write the table, run the summary task, return (names, singles rows, aggregated rows or None)."""
    names = [_full(e) for e in case['entities']]
    label_full = _full({'parts': [case['label']], 'ann': case['label_ann']})
    alt = case.get('label_alt')
    label_alt_full = None if alt is None else _full({'parts': [case['label']], 'ann': None if alt == 'plain' else alt})
    tmp = FORCED_DIR[0] or tempfile.mkdtemp(prefix='c18-')
    try:
        for stale in ('feature_singles.tsv', 'feature_singles_aggregated.tsv'):
            if FORCED_DIR[0] and not SKIP_WRITE[0] and os.path.exists(os.path.join(tmp, stale)):
                os.unlink(os.path.join(tmp, stale))
        if not (SKIP_WRITE[0] and os.path.exists(os.path.join(tmp, 'pairwise_ranks.tsv'))):
            with open(os.path.join(tmp, 'pairwise_ranks.tsv'), 'w', encoding='utf-8') as fh:
                fh.write('FeatureA\tFeatureB\tScore\n')
                for a, b, s in case['rows']:
                    lab = lambda x: label_full if x == -1 or label_alt_full is None else label_alt_full   # noqa: E731
                    fh.write('%s\t%s\t%s\n' % (lab(a) if a < 0 else names[a], lab(b) if b < 0 else names[b],
                                               _fmt(s, case['int_scores'])))
        args = SimpleNamespace(output_folder=tmp, label_column=case['label'], heuristic=case['heuristic'], tldr='False',
                               interaction_order=case['order'], task='ranking_summary')
        with contextlib.redirect_stdout(io.StringIO()):
            outrank_task_result_summary(args)
        spath = os.path.join(tmp, 'feature_singles.tsv')
        if not os.path.exists(spath):
            raise Violation('feature_singles.tsv was not written')
        singles = _parse(spath)
        agg = None
        apath = os.path.join(tmp, 'feature_singles_aggregated.tsv')
        if case['order'] > 1:
            if not os.path.exists(apath):
                raise Violation('feature_singles_aggregated.tsv was not written', kind='C18/aggregated')
            agg = _parse(apath)
        return names, label_full, singles, agg
    finally:
        if not FORCED_DIR[0]:
            shutil.rmtree(tmp, ignore_errors=True)


FORCED_DIR = [None]
SKIP_WRITE = [False]      # re-summarise the ranking file that is already in the folder (same table, other summary arguments)


@st.composite
def rerun_case(draw):
    """Two ranking tables summarised one after the other in the same process AND the same output folder."""
    return {'first': draw(table_case()), 'second': draw(table_case(orders=(1, 2, 2, 3), and_bias=True))}


def oracle_rerun(case, rec):
    d = tempfile.mkdtemp(prefix='c18-rerun-')
    FORCED_DIR[0] = d
    try:
        if not _ambiguity(case['first']):
            run_summary(case['first'])
        sub = Rec()
        oracle_singles(case['second'], sub)
        oracle_aggregated(case['second'], sub)
        # ... and once more WITHOUT rewriting the ranking file, with the other kind of heuristic name (normalised <-> raw scores)
        third = dict(case['second'], heuristic='surrogate-SGD' if 'MI' in case['second']['heuristic'] else 'MI-numba-randomized')
        SKIP_WRITE[0] = True
        oracle_singles(third, sub)
        oracle_aggregated(third, sub)
        rec.nt(sub.nontrivial, key=case)
        rec.cls('rerun-same-folder')
    finally:
        SKIP_WRITE[0] = False
        FORCED_DIR[0] = None
        shutil.rmtree(d, ignore_errors=True)


@st.composite
def big_table_case(draw):
    """A ranking table of more than 100 000 rows (a pairwise run over a few hundred features)."""
    return {'big': {'features': draw(st.integers(455, 480)), 'seed': draw(st.integers(0, 2**32 - 1)),
                    'heuristic': draw(st.sampled_from(['MI-numba-randomized', 'surrogate-SGD']))}}


def oracle_big_table(case, rec):
    import numpy as np
    g = case['big']
    rng = np.random.Generator(np.random.PCG64(int(g['seed'])))
    k = int(g['features'])
    names = [f'feat{i}-({int(rng.integers(1, 900))}; 100)' for i in range(k)]
    label = 'label-(2; 100)'
    tmp = tempfile.mkdtemp(prefix='c18-big-')
    try:
        label_scores = {}
        with open(os.path.join(tmp, 'pairwise_ranks.tsv'), 'w') as fh:
            fh.write('FeatureA\tFeatureB\tScore\n')
            # label rows are spread over the whole file, feature-feature rows in between
            ff = rng.random(k * (k - 1) // 2)
            idx = 0
            for i in range(k):
                sc = [round(float(x), 6) for x in rng.random(2)]
                label_scores[names[i]] = sc
                fh.write(f'{names[i]}\t{label}\t{sc[0]}\n')
                for j in range(i + 1, k):
                    fh.write(f'{names[i]}\t{names[j]}\t{ff[idx]:.6f}\n')
                    idx += 1
                fh.write(f'{label}\t{names[i]}\t{sc[1]}\n')
        args = SimpleNamespace(output_folder=tmp, label_column='label', heuristic=g['heuristic'], tldr='False', interaction_order=1,
                               task='ranking_summary')
        with contextlib.redirect_stdout(io.StringIO()):
            outrank_task_result_summary(args)
        singles = _parse(os.path.join(tmp, 'feature_singles.tsv'))
    finally:
        shutil.rmtree(tmp, ignore_errors=True)
    rec.nt(True, key=case)
    rec.cls('table>100000-rows')
    med = {n: sum(v) / 2.0 for n, v in label_scores.items()}
    got = dict(singles)
    if set(got) != set(med):
        raise Violation(f'{len(set(med) - set(got))} of {k} label-scored features are missing from feature_singles.tsv '
                        f'(table of {k * (k - 1) // 2 + 2 * k} rows); unexpected: {sorted(set(got) - set(med))[:3]}', kind='C18/singles')
    lo, hi = min(med.values()), max(med.values())
    mi = 'MI' in g['heuristic']
    for n, m in med.items():
        exp = (m - lo) / (hi - lo) if mi else m
        if abs(got[n] - exp) > 1e-9:
            raise Violation(f'score of {n} is {got[n]!r}, expected {exp!r}', kind='C18/singles')


def _median(v):
    s = sorted(v)
    m = len(s)
    return s[m // 2] if m % 2 else (s[m // 2 - 1] + s[m // 2]) / 2.0


def _close(a, b):
    return math.isfinite(a) and abs(a - b) <= 1e-9 * max(1.0, abs(b))


# ---- oracles -------------------------------------------------------------------------------------------

def oracle_singles(case, rec):
    amb = _ambiguity(case)
    if amb:
        rec.cls(amb)
        return
    names, label_full, singles, _ = run_summary(case)
    groups = {}
    label_scores = []
    for a, b, s in case['rows']:
        if a < 0 and b < 0:
            label_scores.append(float(s))
        elif a < 0:
            groups.setdefault(names[b], []).append(float(s))
        elif b < 0:
            groups.setdefault(names[a], []).append(float(s))
    got_names = [n for n, _ in singles]
    mi = 'MI' in case['heuristic']
    rec.cls('heuristic:MI' if mi else 'heuristic:other', 'order=%d' % case['order'])
    if label_scores:
        # the label scored against itself is a row "against the label" like any other (every ranking run writes it: the pair space
        # is built with replacement); it takes part in the listing and in the normalisation
        rec.cls('label-label-row')
        groups[label_full] = label_scores
    if any(len(v) > 1 for v in groups.values()):
        rec.cls('duplicated-orientation')
    if any(e['ann'] is None for e in case['entities']) and any(e['ann'] is not None for e in case['entities']):
        rec.cls('mixed-annotation')
    med = {n: _median(v) for n, v in groups.items()}
    rec.nt(len(med) >= 3 and len(set(med.values())) >= 2, key=case)
    if len(set(got_names)) != len(got_names):
        dup = sorted(n for n in set(got_names) if got_names.count(n) > 1)
        raise Violation(f'features listed more than once: {dup}')
    if set(got_names) != set(med):
        raise Violation(f'feature set differs: missing {sorted(set(med) - set(got_names))}, '
                        f'unexpected {sorted(set(got_names) - set(med))} (features with a label row: {sorted(med)})')
    if not med:
        rec.cls('no-label-rows')
        return
    lo, hi = min(med.values()), max(med.values())
    if mi and (hi == lo or hi - lo <= 1e-12 * max(abs(hi), abs(lo))):
        rec.cls('excluded:mi-degenerate')      # 0/0, or a spread of a few ulps (ill-conditioned normalisation)
        return
    exp = {n: (m - lo) / (hi - lo) for n, m in med.items()} if mi else med
    got = dict(singles)
    for n in sorted(exp):
        if not _close(got[n], exp[n]):
            raise Violation(f'score of {n!r} is {got[n]!r}, expected {exp[n]!r} (median of label rows {groups[n]} = {med[n]!r}'
                            + (f', normalised with min {lo!r} max {hi!r}' if mi else '') + f'); heuristic {case["heuristic"]!r}')
    vals = [v for _, v in singles]
    for i in range(len(vals) - 1):
        if not vals[i] >= vals[i + 1]:
            raise Violation(f'rows are not in descending score order: row {i} {singles[i]!r} < row {i + 1} {singles[i + 1]!r}')
    if mi and not (_close(max(vals), 1.0) and _close(min(vals), 0.0)):
        raise Violation(f'MI heuristic: best / worst score are {max(vals)!r} / {min(vals)!r}, expected 1 / 0')


def oracle_aggregated(case, rec):
    amb = _ambiguity(case)
    if amb:
        rec.cls(amb)
        return
    if case['order'] <= 1:
        rec.cls('order=1')
        return
    plain_and_names = {_full(e) for e in case['entities'] if len(e['parts']) == 1 and 'AND' in e['parts'][0]}
    names, label_full, singles, agg = run_summary(case)
    got_single = dict(singles)
    if any(not math.isfinite(v) for v in got_single.values()):
        rec.cls('excluded:mi-degenerate')
        return
    plain_and_listed = sorted(plain_and_names & set(got_single))
    if KNOWN_PLAIN_AND and plain_and_listed:
        rec.cls('excluded:known-plain-name-containing-AND')
        return
    store = {}
    n_inter = 0
    for e, full in zip(case['entities'], names):
        if len(e['parts']) > 1 and full in got_single:
            n_inter += 1
            for p in e['parts']:
                store.setdefault(p, []).append(got_single[full])
    exp = {p: _median(v) for p, v in store.items()}
    rec.cls('order=%d' % case['order'], 'interactions:%s' % ('0' if n_inter == 0 else '1-3' if n_inter <= 3 else '>3'))
    if any(len(v) >= 3 for v in store.values()):
        rec.cls('constituent-in>=3-interactions')
    if plain_and_listed:
        rec.cls('plain-name-containing-AND')
    rec.nt(n_inter >= 1 and bool(plain_and_listed), key=case)
    got_names = [n for n, _ in agg]
    if len(set(got_names)) != len(got_names):
        raise Violation(f'aggregated: constituents listed more than once: {got_names}', kind='C18/aggregated')
    got = dict(agg)
    extra = sorted(set(got) - set(exp))
    if extra:
        raise Violation(f'aggregated table lists {extra}, which occur in no interaction feature of the summary '
                        f'(interaction features: {[n for e, n in zip(case["entities"], names) if len(e["parts"]) > 1 and n in got_single]}; '
                        f'summary features: {sorted(got_single)})', kind='C18/aggregated')
    missing = sorted(set(exp) - set(got))
    if missing:
        raise Violation(f'aggregated table lacks constituents {missing}', kind='C18/aggregated')
    for p in sorted(exp):
        if not _close(got[p], exp[p]):
            raise Violation(f'aggregated score of {p!r} is {got[p]!r}, expected median of {store[p]} = {exp[p]!r} '
                            f'(summary: {singles})', kind='C18/aggregated')


ORACLES = {'C18/big-table': oracle_big_table, 'C18/singles': oracle_singles, 'C18/aggregated': oracle_aggregated, 'C18/rerun': oracle_rerun}


def run(ctx):
    global KNOWN_PLAIN_AND
    KNOWN_PLAIN_AND = ctx.known('plain-name-containing-AND')
    drive(ctx, [
        Clause('C18/singles', singles_strategy, oracle_singles, quick=1500, thorough=80000, quick_shards=6),
        Clause('C18/big-table', big_table_case, oracle_big_table, quick=2, thorough=16, quick_shards=2, thorough_shards=8),
        Clause('C18/rerun', rerun_case, oracle_rerun, quick=300, thorough=12000, quick_shards=4),
        Clause('C18/aggregated', aggregated_strategy, oracle_aggregated, quick=1000, thorough=40000, quick_shards=6),
    ])
    ctx.extra['excluded_counts'] = {k: v for k, v in sorted(ctx.stats.classes.items()) if k.startswith('excluded:')}
