"""C17 - the 3MR ranking is a greedy-optimal permutation of the features."""
from __future__ import annotations

import itertools
import math

import numpy as np
from hypothesis import strategies as st

from vlib import stubs
from vlib.harness import Clause, Stats, Violation, drive, run_sharded

from outrank.algorithms.importance_estimator import rank_features_3MR

ID = 'C17'
RULE = ('Generated: 1..30 distinct feature names (plain, annotated, interaction-like), relevance / redundancy / relation '
        'values from {0,1}, an integer grid -2..3 (ties), [0,1], [-1,1], [-1e6,1e6], near-ties 1e-8 apart or large scores (2e9) with gaps of 30; pair dictionaries with density '
        '0 / sparse / half / dense, every unordered pair either present in both orientations with one value or absent '
        '(self pairs optionally present as distractors); strategy in {median, mean, sum}; alpha, beta in '
        '{0, 1e-3, 0.5, 1, 10, 1e3}. n<=6 is drawn element-wise, n>6 is built from a PCG64 seed. Exhaustive: every '
        'assignment of {0,1} to the relevances and to the redundancy and relation of every unordered pair over n<=4 '
        'features (n<=3: x 3 strategies x alpha,beta in {0,1}; n=4: alpha=beta=1 quick, alpha,beta in {0,1} thorough). '
        'Oracle is a validity predicate (any greedy-optimal order is accepted). Non-trivial = n>=3 and the returned '
        'order is not non-increasing in relevance; distinct = digest of the materialised dictionaries + configuration. '
        'Pipeline clause: generated CSV files (3-6 feature columns of varying dependence on a binary label, 2-3 mini-batches) are '
        'ranked in-process with --heuristic MI-numba-3mr; relevance / redundancy / relation dictionaries are rebuilt from '
        'pairwise_ranks.tsv and 3mr_ranks.tsv must be greedy-valid for them (median, alpha=beta=1).')
ASSUMPTIONS = ['|values| <= 2e9 and alpha, beta <= 1e3, so no importance overflows (the statement is about finite scores)',
               'pair dictionaries are symmetric-or-absent, so the check does not depend on the (ranked, candidate) lookup orientation',
               'importance is recomputed with math.fsum / exact median; a chosen feature may fall short of the maximum by '
               '1e-9 * (max|rel| + alpha*S_red + beta*S_rel), S = max|value| (x number of ranked features for sum)',
               'pipeline clause: the three dictionaries are rebuilt by the harness from pairwise_ranks.tsv following the anchored '
               'construction (min-max normalisation per group); runs whose normalisation is 0/0 are outside the finite domain and counted']

NAME_POOL = ([f'f{i}' for i in range(24)] +
             ['a', 'b', 'c', 'z', 'A', 'user_id', 'label2', 'x AND y', 'u-(3; 100)', 'v-(12; 87)', 'BRAND', 'ANDROID',
              'a AND_REL b', 'feature-with-dash', '0', '1', '', ' ', 'é', 'f1_tr_sqrt', 'very_long_feature_name_' + 'x' * 40,
              'descriptive_interaction_feature_name_' + 'y' * 60 + '_a', 'descriptive_interaction_feature_name_' + 'y' * 60 + '_b',
              'z' * 130])     # names beyond 64 / 128 characters, two of them sharing their first 97
MODES = ['bin', 'grid', 'unit', 'signed', 'wide', 'neartie', 'bigtie']
STRATEGIES = ['median', 'mean', 'sum']
COEFS = [0.0, 1e-3, 0.5, 1.0, 10.0, 1e3]


# ---- case construction ------------------------------------------------------------------------------

def _value(mode):
    if mode == 'bin':
        return st.sampled_from([0.0, 1.0])
    if mode == 'grid':
        return st.integers(-2, 3).map(float)
    if mode == 'unit':
        return st.floats(0.0, 1.0, allow_nan=False, allow_subnormal=False)
    if mode == 'signed':
        return st.floats(-1.0, 1.0, allow_nan=False, allow_subnormal=False)
    if mode == 'neartie':   # candidates 1e-8 apart: distinguishable in double precision, not in single
        return st.tuples(st.sampled_from([-1.0, 0.0, 0.5, 1.0, 2.0]), st.integers(0, 5)).map(lambda t: t[0] + t[1] * 1e-8)
    if mode == 'bigtie':    # large un-normalised scores with small gaps
        return st.tuples(st.sampled_from([2e9, -2e9, 1e8]), st.integers(0, 5)).map(lambda t: t[0] + t[1] * 30.0)
    return st.floats(-1e6, 1e6, allow_nan=False, allow_subnormal=False)


def _rng_values(rng, mode, size):
    if mode == 'bin':
        return rng.integers(0, 2, size=size).astype(float)
    if mode == 'grid':
        return rng.integers(-2, 4, size=size).astype(float)
    if mode == 'unit':
        return rng.random(size)
    if mode == 'signed':
        return rng.random(size) * 2 - 1
    if mode == 'neartie':
        return rng.choice([-1.0, 0.0, 0.5, 1.0, 2.0], size=size) + rng.integers(0, 6, size=size) * 1e-8
    if mode == 'bigtie':
        return rng.choice([2e9, -2e9, 1e8], size=size) + rng.integers(0, 6, size=size) * 30.0
    return (rng.random(size) * 2 - 1) * 1e6


@st.composite
def small_case(draw):
    n = draw(st.integers(1, 6))
    feats = draw(st.lists(st.sampled_from(NAME_POOL), min_size=n, max_size=n, unique=True))
    rel = draw(st.lists(_value(draw(st.sampled_from(MODES))), min_size=n, max_size=n))
    pairs = list(itertools.combinations(range(n), 2))
    out = {'feats': feats, 'rel': rel}
    for key in ('red', 'rla'):
        mode = draw(st.sampled_from(MODES))
        chosen = draw(st.lists(st.sampled_from(pairs), unique=True, max_size=len(pairs))) if pairs else []
        if pairs and draw(st.booleans()):
            chosen = pairs  # dense
        vals = draw(st.lists(_value(mode), min_size=len(chosen), max_size=len(chosen)))
        out[key] = [[i, j, v] for (i, j), v in zip(sorted(chosen), vals)]
        out[key + '_self'] = draw(st.sampled_from([None, 0.0, 1.0, 5.0]))
    out['strategy'] = draw(st.sampled_from(STRATEGIES))
    out['alpha'] = draw(st.sampled_from(COEFS))
    out['beta'] = draw(st.sampled_from(COEFS))
    out['int_scores'] = draw(st.sampled_from(['none', 'none', 'relevance', 'all']))   # integral scores passed as Python ints
    out['np_scalars'] = draw(st.sampled_from([False, False, False, True]))
    out['again'] = draw(st.sampled_from([0, 0, 1, 2]))     # history: the caller updates its dictionaries in place and ranks again
    out['ghost'] = draw(st.sampled_from([0, 0, 0, 1, 3]))  # pair entries that mention a name without relevance entry (not a feature)
    return out


@st.composite
def big_case(draw):
    return {'gen': {'n': draw(st.integers(7, 30)), 'seed': draw(st.integers(0, 2**32 - 1)),
                    'rel_mode': draw(st.sampled_from(MODES)),
                    'red_mode': draw(st.sampled_from(MODES)), 'rla_mode': draw(st.sampled_from(MODES)),
                    'red_density': draw(st.sampled_from([0.0, 0.15, 0.5, 1.0])),
                    'rla_density': draw(st.sampled_from([0.0, 0.15, 0.5, 1.0])),
                    'red_self': draw(st.sampled_from([None, 0.0, 1.0, 5.0])),
                    'rla_self': draw(st.sampled_from([None, 0.0, 1.0, 5.0])),
                    'int_scores': draw(st.sampled_from(['none', 'none', 'relevance', 'all']))},
            'strategy': draw(st.sampled_from(STRATEGIES)),
            'alpha': draw(st.sampled_from(COEFS)), 'beta': draw(st.sampled_from(COEFS)),
            'again': draw(st.sampled_from([0, 0, 1, 2])), 'ghost': draw(st.sampled_from([0, 0, 0, 1, 3])),
            'np_scalars': draw(st.sampled_from([False, False, False, True]))}


def case_strategy():
    return st.one_of(small_case(), big_case(), big_case())


def materialize(case):
    """-> (feats, rel list, red {(i,j): v} for i<j, rla likewise, red_self, rla_self)."""
    if 'gen' in case:
        g = case['gen']
        n = g['n']
        rng = np.random.Generator(np.random.PCG64(g['seed']))
        feats = [NAME_POOL[i] for i in rng.permutation(len(NAME_POOL))[:n].tolist()]
        rel = _rng_values(rng, g['rel_mode'], n).tolist()
        pairs = list(itertools.combinations(range(n), 2))
        dicts = []
        for key in ('red', 'rla'):
            keep = rng.random(len(pairs)) < g[key + '_density']
            vals = _rng_values(rng, g[key + '_mode'], len(pairs)).tolist()
            dicts.append({p: v for p, k, v in zip(pairs, keep.tolist(), vals) if k})
        return feats, rel, dicts[0], dicts[1], g['red_self'], g['rla_self']
    red = {(int(i), int(j)): float(v) for i, j, v in case['red']}
    rla = {(int(i), int(j)): float(v) for i, j, v in case['rla']}
    return list(case['feats']), [float(v) for v in case['rel']], red, rla, case.get('red_self'), case.get('rla_self')


def build_dicts(feats, rel, red, rla, red_self, rla_self):
    relevance = {f: r for f, r in zip(feats, rel)}
    out = []
    for d, selfv in ((red, red_self), (rla, rla_self)):
        full = {}
        for (i, j), v in sorted(d.items()):
            full[(feats[i], feats[j])] = v
            full[(feats[j], feats[i])] = v
        if selfv is not None:
            for f in feats:
                full[(f, f)] = selfv
        out.append(full)
    return relevance, out[0], out[1]


# ---- reference ---------------------------------------------------------------------------------------

def _agg(values, strategy):
    if strategy == 'sum':
        return math.fsum(values)
    if strategy == 'mean':
        return math.fsum(values) / len(values)
    s = sorted(values)
    m = len(s)
    return s[m // 2] if m % 2 else (s[m // 2 - 1] + s[m // 2]) / 2.0


def _pair(d, i, j):
    return d.get((i, j) if i < j else (j, i), 0.0)


def validate(order_idx, rel, red, rla, strategy, alpha, beta, rel_tol=1e-9):
    """order_idx: the returned order as indices. Returns None or a message."""
    n = len(rel)
    if rel[order_idx[0]] != max(rel):
        return f'first feature has relevance {rel[order_idx[0]]!r}, maximal relevance is {max(rel)!r}'
    mred = max([abs(v) for v in red.values()] or [0.0])
    mrla = max([abs(v) for v in rla.values()] or [0.0])
    mrel = max(abs(v) for v in rel)
    for k in range(1, n):
        ranked = order_idx[:k]
        mult = k if strategy == 'sum' else 1
        tol = rel_tol * (mrel + alpha * mred * mult + beta * mrla * mult) + 1e-300
        imps = {}
        for c in order_idx[k:]:
            imps[c] = (rel[c] - alpha * _agg([_pair(red, r, c) for r in ranked], strategy)
                       + beta * _agg([_pair(rla, r, c) for r in ranked], strategy))
        best = max(imps.values())
        got = imps[order_idx[k]]
        if not (got >= best - tol):
            bc = max(imps, key=lambda c: imps[c])
            return (f'position {k + 1}: chosen feature #{order_idx[k]} has importance {got!r} but remaining feature '
                    f'#{bc} has {best!r} (already ranked: {ranked}, tol {tol:.3g})')
    return None


def check_output(df, feats, rel, red, rla, strategy, alpha, beta, rel_tol=1e-9):
    n = len(feats)
    cols = list(df.columns)
    if 'Feature' not in cols or '3MR_Ranking' not in cols:
        return f'unexpected columns {cols}', None
    out = df['Feature'].tolist()
    ranks = [int(r) if r == r and r is not None else r for r in df['3MR_Ranking'].tolist()]
    if len(out) != n or any(not isinstance(f, str) for f in out) or sorted(out) != sorted(feats):
        return f'output {out!r} is not a permutation of the {n} features {feats!r}', None
    if ranks != list(range(1, n + 1)):
        return f'ranks are {ranks!r}, expected 1..{n} in list order', None
    pos = {f: i for i, f in enumerate(feats)}
    order_idx = [pos[f] for f in out]
    return validate(order_idx, rel, red, rla, strategy, alpha, beta, rel_tol), order_idx


def oracle(case, rec):
    feats, rel, red, rla, red_self, rla_self = materialize(case)
    strategy, alpha, beta = case['strategy'], float(case['alpha']), float(case['beta'])
    # numpy float32 scalars are added in single precision inside the function: importances are compared at that resolution
    RT = 2e-5 if case.get('np_scalars') else 1e-9
    relevance, redundancy, relation = build_dicts(feats, rel, red, rla, red_self, rla_self)
    ints = case.get('int_scores', 'none') if 'gen' not in case else case['gen'].get('int_scores', 'none')
    if case.get('np_scalars'):
        # scores taken out of numpy arrays: float32 cells of a score matrix, int64 counts. The values the function receives are the
        # rounded ones, so the validity predicate is evaluated on them
        f32 = lambda v: float(np.float32(v)) if abs(v) < 3e38 else v      # noqa: E731
        rel = [f32(v) for v in rel]
        red = {k: f32(v) for k, v in red.items()}
        rla = {k: f32(v) for k, v in rla.items()}
        relevance, redundancy, relation = build_dicts(feats, rel, red, rla, red_self, rla_self)
        as_np = lambda v: np.int64(v) if float(v).is_integer() and abs(v) < 2**53 else np.float32(v)   # noqa: E731
        relevance = {k: as_np(v) for k, v in relevance.items()}
        redundancy = {k: as_np(v) for k, v in redundancy.items()}
        relation = {k: as_np(v) for k, v in relation.items()}
        rec.cls('scores-as-numpy-scalars')
        ints = 'none'
    if ints != 'none':
        # scores are "finite numbers": integral ones may well arrive as Python ints (e.g. counts); same values, other type
        as_int = lambda v: int(v) if float(v).is_integer() and abs(v) < 2**53 else v   # noqa: E731
        relevance = {k: as_int(v) for k, v in relevance.items()}
        if ints == 'all':
            redundancy = {k: as_int(v) for k, v in redundancy.items()}
            relation = {k: as_int(v) for k, v in relation.items()}
        rec.cls('int-typed-scores:' + ints)
    n = len(feats)
    nghost = int(case.get('ghost') or 0)
    if nghost:
        # entries about names that have no relevance entry (e.g. a column whose label pair fell outside the per-batch budget while
        # its feature-feature pairs were kept): not features, nothing to rank, must not disturb the scores of the features
        for gi in range(nghost):
            ghost = f'ghost{gi}'
            for fi, f in enumerate(feats[:3]):
                for d, v in ((redundancy, 0.75 + gi), (relation, -0.5 - fi)):
                    d[(f, ghost)] = v
                    d[(ghost, f)] = v
        rec.cls('pairs-naming-unscored-features')
    R, D, L = dict(relevance), dict(redundancy), dict(relation)      # the caller's own dictionary objects
    # the strategy name arrives as a run-time string (argparse / a config file), equal to but not the same object as any literal
    strategy_arg = (strategy + ' ').strip() if (n + len(red)) % 2 else strategy
    df = rank_features_3MR(R, D, L, strategy=strategy_arg, alpha=alpha, beta=beta)
    msg, order_idx = check_output(df, feats, rel, red, rla, strategy, alpha, beta, RT)
    if msg is None and case.get('again') and n >= 1:
        # the caller edits the RESULT frame in place (drops a row, re-indexes) and asks again for the same scores with fresh copies of
        # the dictionaries: the second answer is a complete ranking again
        try:
            df.drop(df.index[0], inplace=True)
            df.set_index('Feature', inplace=True)
        except Exception:  # noqa: BLE001
            pass
        df_b = rank_features_3MR(dict(R), dict(D), dict(L), strategy=(strategy + ' ').strip(), alpha=alpha, beta=beta)
        msg_b, _ = check_output(df_b, feats, rel, red, rla, strategy, alpha, beta, RT)
        rec.cls('ranked-again-after-editing-the-result')
        if msg_b is not None:
            msg = 'second call with equal scores after the caller edited the first result frame in place: ' + msg_b
        else:
            df = df_b
    for round_ in range(int(case.get('again') or 0) if msg is None else 0):
        # the caller updates scores IN PLACE (same objects, same keys) and ranks again: the new scores count
        pos = {f: i for i, f in enumerate(feats)}
        red = {k: rla.get(k, 0.0) * 0.5 + v for k, v in red.items()} if round_ == 0 else {k: -v for k, v in red.items()}
        rla = {k: v + (1.0 if (k[0] + k[1]) % 2 else -1.0) for k, v in rla.items()}
        rel = [r + (0.25 if i % 2 else -0.25) for i, r in enumerate(rel)] if round_ else rel
        for (a, b) in list(D):
            if a in pos and b in pos and a != b:
                D[(a, b)] = red[(min(pos[a], pos[b]), max(pos[a], pos[b]))]
        for (a, b) in list(L):
            if a in pos and b in pos and a != b:
                L[(a, b)] = rla[(min(pos[a], pos[b]), max(pos[a], pos[b]))]
        for f in feats:
            R[f] = rel[pos[f]]
        rec.cls('ranked-again-after-in-place-update')
        df = rank_features_3MR(R, D, L, strategy=strategy, alpha=alpha, beta=beta)
        msg, order_idx = check_output(df, feats, rel, red, rla, strategy, alpha, beta, RT)
        if msg is not None:
            msg = f'call #{round_ + 2} on the same dictionary objects after an in-place update of the scores: ' + msg
    rec.cls('strategy=' + strategy, 'n=1' if n == 1 else 'n=2' if n == 2 else 'n<=6' if n <= 6 else 'n<=30',
            'alpha=%g' % alpha, 'beta=%g' % beta)
    npairs = n * (n - 1) // 2
    for nm, d in (('red', red), ('rla', rla)):
        rec.cls(f'{nm}:' + ('empty' if not d else 'dense' if len(d) == npairs else 'sparse'))
    if len(set(rel)) < n:
        rec.cls('relevance-ties')
    if min(rel) < 0:
        rec.cls('negative-relevance')
    if order_idx is not None:
        rels = [rel[i] for i in order_idx]
        differs = any(rels[i] < rels[i + 1] for i in range(n - 1))
        rec.nt(n >= 3 and differs, key=[feats, rel, sorted(red.items()), sorted(rla.items()), red_self, rla_self,
                                        strategy, alpha, beta] if n <= 6 else case)
    if msg is not None:
        shown = df['Feature'].tolist() if 'Feature' in getattr(df, 'columns', []) else list(getattr(df, 'index', []))
        raise Violation(f'{msg}; strategy={strategy} alpha={alpha} beta={beta} features={feats} relevance={rel} '
                        f'output={shown}'[:1800])


@st.composite
def concurrent_case(draw):
    """Several rankings of different score sets running at the same time in one process (threads of a service / a notebook executor):
    each must be the greedy ranking of ITS OWN scores."""
    return {'concurrent': [draw(big_case()) for _ in range(draw(st.integers(8, 16)))], 'threads': draw(st.integers(2, 6))}


def oracle_concurrent(case, rec):
    import sys
    from concurrent.futures import ThreadPoolExecutor
    jobs = []
    for sub in case['concurrent']:
        feats, rel, red, rla, red_self, rla_self = materialize(sub)
        relevance, redundancy, relation = build_dicts(feats, rel, red, rla, red_self, rla_self)
        jobs.append((sub, feats, rel, red, rla, relevance, redundancy, relation))

    def run(job):
        sub, feats, rel, red, rla, R, D, L = job
        return rank_features_3MR(dict(R), dict(D), dict(L), strategy=sub['strategy'], alpha=float(sub['alpha']), beta=float(sub['beta']))
    old = sys.getswitchinterval()
    sys.setswitchinterval(1e-5)          # frequent thread switches: overlapping executions actually interleave
    try:
        with ThreadPoolExecutor(max_workers=int(case['threads'])) as ex:
            outs = list(ex.map(run, jobs))
    finally:
        sys.setswitchinterval(old)
    rec.nt(True, key=case)
    rec.cls('concurrent-rankings')
    for i, (job, df) in enumerate(zip(jobs, outs)):
        sub, feats, rel, red, rla = job[:5]
        msg, _ = check_output(df, feats, rel, red, rla, sub['strategy'], float(sub['alpha']), float(sub['beta']))
        if msg is not None:
            raise Violation(f'ranking #{i} of {len(jobs)} executed concurrently in {case["threads"]} threads: {msg}'[:1500],
                            kind='C17/concurrent')


ORACLES = {'C17/greedy-valid': oracle, 'C17/exhaustive': oracle, 'C17/concurrent': oracle_concurrent}


# ---- exhaustive small scope ------------------------------------------------------------------------


# ---- pipeline clause: 3mr_ranks.tsv against dictionaries rebuilt from pairwise_ranks.tsv ----------------------

@st.composite
def pipeline_case(draw):
    return {'k': draw(st.integers(3, 6)), 'rows_per_batch': draw(st.sampled_from([30, 60, 120])), 'batches': draw(st.integers(2, 3)),
            'seed': draw(st.integers(0, 2**32 - 1)), 'dup': draw(st.booleans()),
            'order': draw(st.sampled_from([1, 2])), 'lookalike': draw(st.booleans())}


def oracle_pipeline(case, rec):
    import csv
    import os
    import shutil
    import tempfile

    import pandas as pd

    from outrank import task_ranking as tr
    rng = np.random.Generator(np.random.PCG64(int(case['seed'])))
    k, n = int(case['k']), int(case['rows_per_batch']) * int(case['batches'])
    label = rng.integers(0, 2, size=n)
    cols = {}
    for j in range(k):
        mode = int(rng.integers(0, 4))
        if mode == 0:
            col = np.where(rng.random(n) < 0.5 + 0.1 * j, label, rng.integers(0, 2, size=n))      # informative
        elif mode == 1:
            col = rng.integers(0, 2 + j, size=n)                                                    # noise
        elif mode == 2 and j > 0:
            prev = cols[f'f{j - 1}']
            col = np.where(rng.random(n) < 0.8, prev, rng.integers(0, 3, size=n))                   # redundant with previous
        else:
            col = (label + rng.integers(0, 2, size=n) * 2) % 4                                      # needs interaction
        cols[f'f{j}'] = col
    if case['dup'] and k >= 2:
        cols['f1'] = cols['f0'].copy()                                                              # exact duplicate: ties
    if case.get('lookalike'):
        # ordinary feature names that merely contain the relation marker's letters (BRAND_REL ...) are ordinary features
        ren = {'f0': 'BRAND_REL', 'f2': 'AND_RELATED', 'f3': 'xAND_RELy'}
        cols = {ren.get(k, k): v for k, v in cols.items()}
    names = list(cols) + ['label']
    tmp = tempfile.mkdtemp(prefix='c17-')
    old = os.getcwd()
    orig_pool = tr.Pool
    try:
        os.chdir(tmp)
        os.makedirs('data')
        with open('data/data.csv', 'w', newline='') as fh:
            w = csv.writer(fh, lineterminator='\n')
            w.writerow(names)
            for i in range(n):
                w.writerow([f'v{int(cols[c][i])}' for c in cols] + [str(int(label[i]))])
        args = stubs.make_args(task='ranking', heuristic='MI-numba-3mr', minibatch_size=n, subsampling=1,
                               data_path=os.path.join(tmp, 'data'), data_source='csv-raw', output_folder=os.path.join(tmp, 'out'),
                               include_cardinality_in_feature_names='False', target_ranking_only='True',
                               interaction_order=int(case.get('order', 1)))
        tr.Pool = lambda m=None: stubs.InlinePool()
        stubs.reset_globals()
        try:
            tr.outrank_task_conduct_ranking(args)
        except SystemExit:
            pass
        rpath = os.path.join(tmp, 'out', '3mr_ranks.tsv')
        if not os.path.exists(rpath):
            raise Violation('3mr_ranks.tsv was not written', kind='C17/pipeline')
        ranks = pd.read_csv(rpath, sep='\t', keep_default_na=False, na_values=[])
        trip = pd.read_csv(os.path.join(tmp, 'out', 'pairwise_ranks.tsv'), sep='\t', keep_default_na=False, na_values=[])
    finally:
        tr.Pool = orig_pool
        os.chdir(old)
        shutil.rmtree(tmp, ignore_errors=True)
    # one batch only (minibatch_size = n): the task builds its dictionaries from the per-batch rows in arrival order (a later batch
    # overwrites an earlier one) while pairwise_ranks.tsv is sorted by score, so with several batches the file does not determine
    # the dictionaries; with one batch every pair has exactly one row and the rebuild below is exact
    REL = ' AND_REL '
    relv, rela, redu = {}, {}, {}
    seen = set()
    for a, b in zip(trip.FeatureA, trip.FeatureB):
        if (a, b) in seen:
            rec.cls('excluded:several-rows-per-pair')
            return
        seen.add((a, b))
    for a, b, sc in zip(trip.FeatureA, trip.FeatureB, trip.Score):
        sc = float(sc)
        if b == 'label' and a != 'label':
            if REL in a:
                x, y = a.split(REL)
                rela[(x, y)] = sc
            else:
                relv[a] = sc
        elif a != 'label' and b != 'label' and REL not in a and REL not in b:
            redu[(a, b)] = sc

    def norm(d):
        if not d:
            return {}
        lo, hi = min(d.values()), max(d.values())
        if not (hi > lo):
            return None
        return {kk: (v - lo) / (hi - lo) for kk, v in d.items()}
    relv_n, rela_n, redu_n = norm(relv), norm(rela), norm(redu)
    if relv_n is None or rela_n is None or redu_n is None:
        rec.cls('excluded:normalisation-0/0')
        return
    feats = sorted(relv_n)
    pos = {f: i for i, f in enumerate(feats)}
    rel = [relv_n[f] for f in feats]
    red, rla = {}, {}
    for (a, b), v in redu_n.items():
        if a != b:
            key = (min(pos[a], pos[b]), max(pos[a], pos[b]))
            if key in red and abs(red[key] - v) > 1e-12:
                rec.cls('excluded:asymmetric-redundancy')
                return
            red[key] = v
    for (a, b), v in rela_n.items():
        key = (min(pos[a], pos[b]), max(pos[a], pos[b]))
        rla[key] = v
    msg, order_idx = check_output(ranks, feats, rel, red, rla, 'median', 1.0, 1.0)
    if order_idx is not None:
        rels = [rel[i] for i in order_idx]
        rec.nt(any(rels[i] < rels[i + 1] for i in range(len(rels) - 1)), key=case)
    rec.cls('pipeline:k=%d' % k, 'pipeline:relations=%s' % ('none' if not rla else 'some'))
    if msg is not None:
        raise Violation(f'3mr_ranks.tsv is not a greedy-optimal ranking for the dictionaries rebuilt from pairwise_ranks.tsv: {msg}; '
                        f'features={feats} relevance={rel} output={ranks["Feature"].tolist()}'[:1800], kind='C17/pipeline')


ORACLES['C17/pipeline'] = oracle_pipeline


def _enum_case(n, relbits, redbits, rlabits, strategy, alpha, beta):
    pairs = list(itertools.combinations(range(n), 2))
    return {'feats': [f'f{i}' for i in range(n)], 'rel': [float(b) for b in relbits],
            'red': [[i, j, float(b)] for (i, j), b in zip(pairs, redbits)],
            'rla': [[i, j, float(b)] for (i, j), b in zip(pairs, rlabits)],
            'red_self': None, 'rla_self': None, 'strategy': strategy, 'alpha': alpha, 'beta': beta}


def _enumerate_shard(job):
    n, coefs, shard, nshards = job
    pairs = list(itertools.combinations(range(n), 2))
    feats = [f'f{i}' for i in range(n)]
    evals = nontriv = 0
    fail = None
    sample = None
    idx = -1
    for relbits in itertools.product((0.0, 1.0), repeat=n):
        for redbits in itertools.product((0.0, 1.0), repeat=len(pairs)):
            idx += 1
            if idx % nshards != shard:
                continue
            red = {p: b for p, b in zip(pairs, redbits)}
            redundancy = {}
            for (i, j), b in red.items():
                redundancy[(feats[i], feats[j])] = b
                redundancy[(feats[j], feats[i])] = b
            for rlabits in itertools.product((0.0, 1.0), repeat=len(pairs)):
                rla = {p: b for p, b in zip(pairs, rlabits)}
                relation = {}
                for (i, j), b in rla.items():
                    relation[(feats[i], feats[j])] = b
                    relation[(feats[j], feats[i])] = b
                relevance = {f: r for f, r in zip(feats, relbits)}
                for strategy in STRATEGIES:
                    for alpha, beta in coefs:
                        df = rank_features_3MR(relevance, redundancy, relation, strategy=strategy, alpha=alpha, beta=beta)
                        msg, order_idx = check_output(df, feats, list(relbits), red, rla, strategy, alpha, beta)
                        evals += 1
                        if order_idx is not None and n >= 3:
                            rels = [relbits[i] for i in order_idx]
                            if any(rels[i] < rels[i + 1] for i in range(n - 1)):
                                nontriv += 1
                                if sample is None:
                                    sample = _enum_case(n, relbits, redbits, rlabits, strategy, alpha, beta)
                        if msg is not None and fail is None:
                            fail = _enum_case(n, relbits, redbits, rlabits, strategy, alpha, beta)
                if fail is not None:
                    return evals, nontriv, fail, sample
    return evals, nontriv, fail, sample


def run(ctx):
    all_coefs = [(0.0, 0.0), (0.0, 1.0), (1.0, 0.0), (1.0, 1.0)]
    jobs = [(1, all_coefs, 0, 1), (2, all_coefs, 0, 1), (3, all_coefs, 0, 1)]
    n4_coefs = [(1.0, 1.0)] if ctx.tier == 'quick' else all_coefs
    jobs += [(4, n4_coefs, s, 32) for s in range(32)]
    results = run_sharded(lambda i: _enumerate_shard(jobs[i]), len(jobs))
    enum_evals = enum_nt = 0
    fails = []
    for evals, nontriv, fail, sample in results:
        enum_evals += evals
        enum_nt += nontriv
        if sample is not None and len(ctx.stats.samples) < 2:
            ctx.stats.samples.append({'kind': 'C17/exhaustive', 'case': sample})
        if fail is not None:
            fails.append(fail)
    ctx.stats.evaluations += enum_evals
    ctx.stats.nontrivial_count_only += enum_nt
    ctx.stats.per_kind['C17/exhaustive'] = {'evaluations': enum_evals, 'nontrivial': enum_nt}
    ctx.extra['exhaustive_scope'] = ('all {0,1} assignments to relevance and to redundancy / relation of every unordered pair, '
                                     'n<=4 features, x 3 strategies x (alpha,beta) in %s for n=4 / {0,1}^2 for n<=3: '
                                     '%d evaluations' % (n4_coefs, enum_evals))
    ctx.extra['exhaustive_subscope_complete'] = not fails
    if fails:
        fails.sort(key=lambda c: (len(c['feats']), c['alpha'] + c['beta'], sum(c['rel']),
                                  sum(v for _, _, v in c['red']) + sum(v for _, _, v in c['rla'])))
        case = fails[0]
        res = ctx.run_oracle('C17/exhaustive', oracle, case, Stats())
        ctx.report('C17/exhaustive', case, res[1] if res else 'enumeration mismatch (not reproduced on re-run)')

    drive(ctx, [Clause('C17/greedy-valid', case_strategy, oracle, quick=1500, thorough=240000, quick_shards=4),
                Clause('C17/pipeline', pipeline_case, oracle_pipeline, quick=48, thorough=4500, quick_shards=8),
                Clause('C17/concurrent', concurrent_case, oracle_concurrent, quick=8, thorough=400, quick_shards=4)])
