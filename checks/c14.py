"""C14 - cardinality sketch: exact while warm (<= 2^18 distinct), within 2 % up to 2^21, duplicate-blind,
order-independent in the exact range.

Histories are *program cases* interpreted against HyperLogLogWCache and a model.  Big histories use compact
segments over an injective value family (value = f(salt + index)), so the model of the distinct count is the number
of fresh indices handed out; small histories are element-level (explicit strings) against a Python set."""
from __future__ import annotations

import numpy as np
import xxhash
from hypothesis import strategies as st

from vlib.harness import Clause, Inconclusive, Violation, drive

from outrank.algorithms.sketches.counting_ultiloglog import HyperLogLogWCache as HyperLogLog

try:  # the error bound the pipeline constructs its sketches with (compute_cardinalities)
    from outrank.core_ranking import HYPERLL_ERROR_BOUND as ERROR_BOUND
except Exception:  # noqa: BLE001
    ERROR_BOUND = 0.02

ID = 'C14'
B = 1 << 18            # largest distinct count that must be reported exactly
TOP = 1 << 21          # largest distinct count covered by the 2 % clause
RULE = ('Big histories: case = (value family in {"v<i>", zero-padded 8-digit decimal ids, consecutive ids as 8 hex digits, 8-digit hex strings as internal_hash yields (bijective 32-bit mix of '
        'salt+i), unicode}, salt, segment list). Segments: fresh(k) adds k values never added before; '
        'replay(lo, hi, order) re-adds the already added values with indices in [lo,hi) in order asc / desc / perm(seed) / '
        'sample-with-replacement(seed, count); probe observes len; shuffle(seed, mode) (only while <= 2^18 distinct) feeds the whole '
        'multiset added so far to a second sketch in a PCG64(seed) permuted order (mode perm) or permuted with every repeated add '
        'moved to the end (mode dups-last) and compares sizes. len is also observed '
        'right before and right after every replay. Segment sizes are drawn so that cumulative distinct counts land on 1..50, '
        '2^18-2..2^18+2, 2^18*{1.5,2,4,8}; replays target the first / last / boundary-index / random values. Non-trivial = '
        'the history ends above 2^18 distinct values or executes a non-empty replay at >= 2^18-2 distinct values. '
        'Small histories: <=200 explicit string adds over a per-case pool (text, xxh32 hex digests, "v<i>"), len observed '
        'after every add, and the same multiset re-fed reversed and PCG64-permuted; non-trivial = at least one duplicate add. '
        'Distinct = digest of the case.')
ASSUMPTIONS = ['only strings are fed (the pipeline feeds internal_hash hex strings); non-str inputs are out of scope',
               'the 2 % clause is a statement about hash luck: it is evaluated on sampled injective value families '
               '(relative std of the linear-counting estimate is <= 0.3 % in this range, so 2 % is > 6 sigma)',
               'value families are injective by construction, so the model distinct count is the number of fresh indices']

FAMILIES = ['hex', 'v', 'uni', 'dec8', 'hexseq', 'sha64', 'nl', 'cyr', 'nul', 'rawdigest', 'longmid']
_M32 = 0xFFFFFFFF
CHUNK = 1 << 16
SHUFFLE_MAX_ADDS = 3 * B      # shuffle segments re-feed everything: skipped (and counted) beyond this many adds


def make_values(family, salt, idx):
    """Injective map index -> string; idx is an int64 numpy array."""
    x = (idx.astype(np.uint64) + np.uint64(salt))
    if family == 'hex':
        x = x & np.uint64(_M32)
        x = (x * np.uint64(0x9E3779B1)) & np.uint64(_M32)
        x ^= x >> np.uint64(15)
        x = (x * np.uint64(0x85EBCA77)) & np.uint64(_M32)
        x ^= x >> np.uint64(13)
        return ['%08x' % v for v in x.tolist()]
    if family == 'v':
        return ['v%d' % v for v in x.tolist()]
    if family == 'dec8':       # zero-padded decimal ids: 8 characters that also parse as hexadecimal, far from uniform
        return ['%08d' % (v % 100_000_000) for v in (idx.astype(np.uint64) + np.uint64(salt % 1000)).tolist()]
    if family == 'hexseq':     # consecutive ids written as 8 hex digits (look like digests, are not uniformly distributed)
        return ['%08x' % (v & _M32) for v in x.tolist()]
    if family == 'sha64':      # 64-character digests (SHA-256 hex): long values, > 8 MiB of text below the warm-up capacity
        import hashlib
        return [hashlib.sha256(b'%d' % v).hexdigest() for v in x.tolist()]
    if family == 'uni':
        return ['ключ%d値é' % v for v in x.tolist()]
    if family == 'longmid':    # long values (> 256 bytes) that differ only in the middle: a fixed-width id between a common head and a common tail
        head, tail = 'https://www.example.org/landing/' + 'h' * 120 + '/item/', '?utm_source=newsletter&utm_campaign=' + 't' * 130
        return ['%s%010d%s' % (head, v, tail) for v in x.tolist()]
    if family == 'nul':        # C-string / fixed-width style fields: the value ends in NUL characters (part of the value)
        return ['id%d\x00' % v if v % 3 else 'id%d\x00\x00' % v for v in x.tolist()]
    if family == 'rawdigest':  # raw 4-byte binary digests (bytes objects, mostly not valid UTF-8); the mixing below is a bijection on 32 bits
        y = x & np.uint64(_M32)
        y = (y * np.uint64(0x9E3779B1)) & np.uint64(_M32)
        y ^= y >> np.uint64(15)
        y = (y * np.uint64(0x85EBCA77)) & np.uint64(_M32)
        y ^= y >> np.uint64(13)
        return [int(v).to_bytes(4, 'big') for v in y.tolist()]
    if family == 'cyr':        # words of a non-Latin script: the values differ ONLY in non-ASCII characters (base-32 digits as Cyrillic letters)
        abc = 'абвгдежзийклмнопрстуфхцчшщъыьэюя'
        out = []
        for v in x.tolist():
            w = []
            while True:
                w.append(abc[v & 31])
                v >>= 5
                if not v:
                    break
            out.append(''.join(w))
        return out
    if family == 'nl':         # free-text values spanning several lines (LF, CR LF, a trailing newline) - strings like any other
        return ['note %d\nline two\r\n%d\n' % (v, v % 7) for v in x.tolist()]
    raise Inconclusive()


def feed(sketch, family, salt, idx):
    for s in range(0, len(idx), CHUNK):
        add = sketch.add
        for v in make_values(family, salt, idx[s:s + CHUNK]):
            add(v)


def replay_indices(lo, hi, order, n):
    lo, hi = max(0, min(int(lo), n)), max(0, min(int(hi), n))
    if hi <= lo:
        return np.zeros(0, dtype=np.int64)
    idx = np.arange(lo, hi, dtype=np.int64)
    if order == 'asc':
        return idx
    if order == 'desc':
        return idx[::-1].copy()
    if isinstance(order, list) and order and order[0] == 'perm':
        return idx[np.random.Generator(np.random.PCG64(int(order[1]))).permutation(len(idx))]
    if isinstance(order, list) and order and order[0] == 'sample':
        cnt = max(0, min(int(order[2]), 1 << 20))
        return idx[np.random.Generator(np.random.PCG64(int(order[1]))).integers(0, len(idx), size=cnt)]
    raise Inconclusive()


def size_verdict(got, d):
    """None when len == got is admissible for d distinct values, else (kind, text)."""
    if d <= B:
        if got != d:
            return ('C14/exact', f'{d} distinct values (<= 2^18) but len = {got}')
    elif d <= TOP:
        if 50 * abs(got - d) > d:
            return ('C14/within-2pct', f'{d} distinct values but len = {got} (off by {100.0 * (got - d) / d:.3f} %)')
    return None


def oracle_big(case, rec):
    family, salt, ops = case['family'], int(case['salt']), case['ops']
    if family not in FAMILIES or not (0 <= salt < 2 ** 31):
        raise Inconclusive()
    # domain validation (replay files may be hand-written): never more than 2^21 distinct values
    tot = 0
    for op in ops:
        if op[0] == 'fresh':
            if not (isinstance(op[1], int) and op[1] >= 0):
                raise Inconclusive()
            tot += op[1]
    if tot > TOP:
        raise Inconclusive()

    sk = HyperLogLog(ERROR_BOUND)
    n = 0                       # model: number of distinct values added so far
    segs = []                   # executed index arrays, in order (the multiset added so far)
    adds = 0
    state = {'last': None, 'fresh_since': True}
    companions = []
    flags = {'replay_near': False, 'dup_before': False, 'dup_at': False, 'dup_after': False}

    def probe(where):
        got = len(sk)
        bad = size_verdict(got, n)
        if bad is not None:
            raise Violation(f'{where}: {bad[1]} (family {family}, salt {salt}, {adds} adds so far)', kind=bad[0])
        if not state['fresh_since'] and state['last'] is not None and got != state['last']:
            raise Violation(f'{where}: len changed from {state["last"]} to {got} although only values already seen were '
                            f're-added ({n} distinct values, family {family}, salt {salt})', kind='C14/duplicate-blind')
        state['last'] = got
        state['fresh_since'] = False

    for k, op in enumerate(ops):
        where = f'after segment #{k} {op!r}'
        if op[0] == 'fresh':
            if op[1] > 0:
                idx = np.arange(n, n + op[1], dtype=np.int64)
                feed(sk, family, salt, idx)
                segs.append(idx)
                n += op[1]
                adds += op[1]
                state['fresh_since'] = True
        elif op[0] == 'replay':
            idx = replay_indices(op[1], op[2], op[3], n)
            probe(f'before segment #{k} {op!r}')
            if len(idx):
                if n >= B - 2:
                    flags['replay_near'] = True
                flags['dup_before' if n < B else 'dup_at' if n == B else 'dup_after'] = True
                feed(sk, family, salt, idx)
                segs.append(idx)
                adds += len(idx)
            probe(where)
        elif op[0] == 'probe':
            probe(where)
        elif op[0] == 'companion':
            # another live sketch in the same process (the pipeline keeps one per feature) takes op[1] distinct values of its own;
            # the sketch under observation received nothing meanwhile
            probe(f'before segment #{k} {op!r}')
            cnt, salt2 = int(op[1]), int(op[2])
            if not (0 < cnt <= TOP and 0 <= salt2 < 2 ** 31):
                raise Inconclusive()
            comp = HyperLogLog(ERROR_BOUND)
            feed(comp, 'v' if family != 'v' else 'hex', salt2, np.arange(0, cnt, dtype=np.int64))
            companions.append((comp, cnt))
            rec.cls('second-live-sketch')
            got = len(sk)
            if got != state['last']:
                raise Violation(f'{where}: len of the observed sketch changed from {state["last"]} to {got} while only ANOTHER sketch '
                                f'object received values ({cnt} distinct ones); {n} distinct values in the observed sketch',
                                kind='C14/isolation')
            for ci, (c2, d2) in enumerate(companions):
                bad = size_verdict(len(c2), d2)
                if bad is not None:
                    raise Violation(f'{where}: companion sketch #{ci}: {bad[1]}', kind=bad[0])
        elif op[0] == 'shuffle':
            probe(where)
            if n > B:
                rec.cls('shuffle-skipped:beyond-exact-range')
            elif adds > SHUFFLE_MAX_ADDS:
                rec.cls('shuffle-skipped:too-many-adds')
            elif adds:
                rec.cls('shuffle-executed')
                allidx = np.concatenate(segs)
                allidx = allidx[np.random.Generator(np.random.PCG64(int(op[1]))).permutation(len(allidx))]
                mode = op[2] if len(op) > 2 else 'perm'
                if mode == 'dups-last':      # permuted first occurrences, then every repeated add
                    first = np.zeros(len(allidx), dtype=bool)
                    first[np.unique(allidx, return_index=True)[1]] = True
                    allidx = np.concatenate([allidx[first], allidx[~first]])
                elif mode != 'perm':
                    raise Inconclusive()
                other = HyperLogLog(ERROR_BOUND)
                feed(other, family, salt, allidx)
                a, b = len(sk), len(other)
                if a != b:
                    raise Violation(f'{where}: the same multiset ({adds} adds, {n} distinct values <= 2^18) gives len {a} in the '
                                    f'history order and len {b} in the PCG64({op[1]}) permuted order ({mode})', kind='C14/order')
        else:
            raise Inconclusive()
    probe('at the end of the history')
    for ci, (c2, d2) in enumerate(companions):
        bad = size_verdict(len(c2), d2)
        if bad is not None:
            raise Violation(f'at the end of the history: companion sketch #{ci}: {bad[1]}', kind=bad[0])
    rec.nt(n > B or flags['replay_near'], key=case)
    rec.cls('family=' + family,
            'reach=' + ('<2^18-2' if n < B - 2 else '2^18-2..2^18' if n <= B else '2^18+1..2^18+2' if n <= B + 2 else
                        '<=1.5*2^18' if n <= B * 3 // 2 else '<=2^19' if n <= 2 * B else '<=2^20' if n <= 4 * B else '<=2^21'))
    for f, label in (('dup_before', 'replay-below-2^18'), ('dup_at', 'replay-at-exactly-2^18'), ('dup_after', 'replay-above-2^18')):
        if flags[f]:
            rec.cls(label)


# ---- strategies: big histories -------------------------------------------------------------------------

NEAR = [B - 2, B - 1, B, B + 1, B + 2]
FAR = [[], [], [], [], [B * 3 // 2], [2 * B], [B * 3 // 2, 2 * B], [4 * B], [2 * B, 4 * B], [8 * B], [4 * B, 8 * B]]
_SEED = st.integers(0, 2 ** 32 - 1)


@st.composite
def replay_op(draw, n):
    """A replay of already added values when n distinct values exist (n >= 1)."""
    choices = ['last', 'first', 'single', 'mid']
    if n > B - 3:
        choices += ['boundary', 'boundary']
    if n <= 2 * B:
        choices.append('whole')
    how = draw(st.sampled_from(choices))
    if how == 'last':
        lo, hi = n - draw(st.integers(1, 5)), n
    elif how == 'first':
        lo, hi = 0, draw(st.integers(1, 5))
    elif how == 'single':
        lo = draw(st.integers(0, n - 1))
        hi = lo + 1
    elif how == 'mid':
        lo = draw(st.integers(0, n - 1))
        hi = lo + draw(st.integers(1, 2000))
    elif how == 'boundary':
        lo = draw(st.integers(B - 3, B))
        hi = draw(st.integers(lo + 1, B + 3))
    else:
        lo, hi = 0, n
    order = draw(st.one_of(st.sampled_from(['asc', 'desc']), st.tuples(st.just('perm'), _SEED).map(list),
                           st.tuples(st.just('sample'), _SEED, st.integers(1, 2000)).map(list)))
    return ['replay', max(0, lo), hi, order]


@st.composite
def big_history(draw):
    family = draw(st.sampled_from(FAMILIES))
    salt = draw(st.integers(0, 2 ** 31 - 1))
    small = draw(st.lists(st.integers(1, 50), max_size=2, unique=True))
    near = draw(st.lists(st.sampled_from(NEAR), max_size=5, unique=True))
    far = list(draw(st.sampled_from(FAR)))
    if not near and not far:
        near = [draw(st.sampled_from(NEAR))]
    targets = sorted(set(small) | set(near) | set(far))
    ops = []
    n = 0
    shuffles = 0
    for t in targets:
        if t > n:
            ops.append(['fresh', t - n])
            n = t
        at_boundary = t in NEAR
        for _ in range(draw(st.integers(1 if at_boundary else 0, 3))):
            what = draw(st.sampled_from(['replay', 'replay', 'replay', 'probe', 'shuffle', 'fresh1']))
            if what == 'replay':
                ops.append(draw(replay_op(n)))
            elif what == 'probe':
                ops.append(['probe'])
            elif what == 'shuffle':
                if n <= B and shuffles == 0:
                    shuffles += 1
                    ops.append(['shuffle', draw(_SEED), draw(st.sampled_from(['perm', 'dups-last']))])
                else:
                    ops.append(['probe'])
            else:
                k = draw(st.integers(1, 2))
                if n + k <= TOP:
                    ops.append(['fresh', k])
                    n += k
        if n > B and draw(st.integers(0, 2)) == 0:
            ops.append(['companion', B + draw(st.integers(1, B // 2)), draw(st.integers(0, 2 ** 31 - 1))])
        ops.append(['probe'])
    return {'family': family, 'salt': salt, 'ops': ops}


@st.composite
def replay_heavy_history(draw):
    """Few distinct values re-added so often that the NUMBER OF ADDS passes 2^18 while the distinct count stays small (what the
    pipeline does: every mini-batch re-adds the distinct values it saw)."""
    k = draw(st.integers(1000, 6000))
    rounds = (B // k) + draw(st.integers(2, 8))
    ops = [['fresh', k], ['probe']]
    for r in range(rounds):
        ops.append(['replay', 0, k, draw(st.sampled_from(['asc', 'desc']))])
        if r % 16 == 15:
            ops.append(['probe'])
    ops.append(['probe'])
    return {'family': draw(st.sampled_from(FAMILIES)), 'salt': draw(st.integers(0, 2 ** 31 - 1)), 'ops': ops}


# ---- small histories -----------------------------------------------------------------------------------

def _hexdigest(s):
    return xxhash.xxh32(s.encode('utf-8'), seed=20141025).hexdigest()      # what internal_hash yields


_TEXT = st.text(alphabet=st.characters(blacklist_categories=('Cs',)), max_size=6)
_SMALL_VALUE = st.one_of(_TEXT, _TEXT.map(_hexdigest), st.integers(0, 60).map(lambda i: 'v%d' % i),
                         st.sampled_from(['', ' ', '0', '1', '01', 'a', 'A', 'é', 'é', '中', '00000000', 'ffffffff']))
_POOL_SIZES = [3, 1, 2, 5, 8, 13, 25, 40]
_LENGTHS = [3, 1, 2, 0, 5, 8, 13, 20, 40, 80, 140, 200]       # first entry = what Hypothesis shrinks to


@st.composite
def small_history(draw):
    ps = draw(st.sampled_from(_POOL_SIZES))
    pool = draw(st.lists(_SMALL_VALUE, min_size=ps, max_size=ps, unique=True))
    n = draw(st.sampled_from(_LENGTHS))
    adds = draw(st.lists(st.sampled_from(pool), min_size=n, max_size=n))
    return {'adds': adds, 'order_seed': draw(_SEED)}


def oracle_small(case, rec):
    adds = case['adds']
    if len(adds) > 100000 or not all(isinstance(v, str) for v in adds):
        raise Inconclusive()
    try:
        for v in adds:
            v.encode('utf-8')
    except UnicodeError:
        raise Inconclusive()
    sk = HyperLogLog(ERROR_BOUND)
    model = set()
    dup = False
    prev = len(sk)
    if prev != 0:
        raise Violation(f'empty sketch has len {prev}', kind='C14/exact')
    for k, v in enumerate(adds):
        seen = v in model
        model.add(v)
        sk.add(v)
        got = len(sk)
        if seen:
            dup = True
            if got != prev:
                raise Violation(f'add #{k} re-added {v!r} and len changed from {prev} to {got}', kind='C14/duplicate-blind')
        bad = size_verdict(got, len(model))
        if bad is not None:
            raise Violation(f'after add #{k} of {v!r}: {bad[1]}', kind=bad[0])
        prev = got
    if len(model) <= B:
        perm = np.random.Generator(np.random.PCG64(int(case['order_seed']))).permutation(len(adds)).tolist()
        for name, order in (('reversed', list(range(len(adds) - 1, -1, -1))), ('permuted', perm)):
            other = HyperLogLog(ERROR_BOUND)
            for i in order:
                other.add(adds[i])
            if len(other) != prev:
                raise Violation(f'the same multiset gives len {prev} in the history order and len {len(other)} in {name} order',
                                kind='C14/order')
    rec.nt(dup, key=case)
    d = len(model)
    rec.cls('small:distinct=' + ('0' if d == 0 else '1' if d == 1 else '2..9' if d < 10 else '10+'),
            'small:with-duplicates' if dup else 'small:no-duplicates')


ORACLES = {'C14/replay-heavy': oracle_big, 'C14/big-history': oracle_big, 'C14/small-history': oracle_small}
# sub-kinds are raised by both oracles: replay dispatches on the shape of the case
for _k in ('exact', 'within-2pct', 'duplicate-blind', 'order', 'isolation'):
    ORACLES['C14/' + _k] = lambda case, rec: (oracle_big if 'ops' in case else oracle_small)(case, rec)


def run(ctx):
    clauses = [
        Clause('C14/big-history', big_history, oracle_big, quick=112, thorough=1280, quick_shards=16, thorough_shards=16),
        Clause('C14/replay-heavy', replay_heavy_history, oracle_big, quick=8, thorough=160, quick_shards=8, thorough_shards=16),
        Clause('C14/small-history', small_history, oracle_small, quick=600, thorough=30000, quick_shards=4,
               thorough_shards=16),
    ]
    drive(ctx, clauses)
