"""C10 - interaction features represent joint values faithfully."""
from __future__ import annotations

import itertools
import json
import math

import pandas as pd
from hypothesis import strategies as st

from vlib import stubs
from vlib.harness import Clause, Violation, drive

from outrank import core_ranking as cr

ID = 'C10'
RULE = ('Frames of 2-5 feature columns + label (label anywhere), 2-40 rows, cell values from a deliberately collision-prone pool: every '
        'string of length 0-3 over {"1","a"}, composed and decomposed "e-acute", whitespace and separator-like strings (":", "-", ",", '
        '" AND ", "2:", "1:1", case / whitespace / numeric-spelling variants); interaction orders 2-4; caps 1..C(k,order)+2; fresh sampler state; row index default or shuffled / with gaps / string labels. Non-trivial = the frame has two '
        'rows with different constituent tuples whose plain concatenations coincide, or >=2 distinct tuples and >=1 repeated tuple '
        '(for some emitted combination). A second clause builds production-size frames (3-4.2*10^5 rows, all joint values of two '
        'id-like columns distinct) on which any digest narrower than 64 bits collides. Distinct = digest of the case.')
ASSUMPTIONS = ['a 64-bit hash collision between two different joint values would be reported as a violation; its probability over a '
               'whole thorough run is below 1e-12 and is ignored',
               'column names are plain identifiers (the statement is about values; names containing " AND " would make the naming rule ambiguous)']

POOL = [''.join(p) for n in range(0, 4) for p in itertools.product('1a', repeat=n)] + \
    ['é', 'é', ' ', '  ', ':', '-', ',', ' AND ', '2:', '1:1', '1:', ':1', '0', '10', '01', 'None', 'nan', 'A', 'A1', 'a ', ' a', '1.0', '1e0']


GROUPS = [
    ['', '1', '11', '111', 'a', 'a1', '1a', 'aa', 'a11'],            # prefixes / suffixes of one another
    ['', ':', '1:', ':1', '1:1', '2:', '1', '2', '0:', '3:1:'],       # look like length prefixes / separators
    ['', '-', ',', ' AND ', ' ', '  ', 'AND', ' AND', 'AND '],         # separator-like
    ['a', 'A', 'a ', ' a', 'é', 'e\u0301', 'E\u0301', 'É'],              # case / blanks / unicode normalisation variants
    ['0', '00', '01', '10', '1.0', '1e0', '1', '+1', 'None', 'nan'],   # numeric spellings
    ['a', 'a\x00', 'a\x00\x00', '', '\x00', '\x00a', 'a\x00b'],
    ['shoes', 'red\x1fsale', 'shoes\x1fred', 'sale', '', '\x1f', '\x1e', 'a\x1eb', 'a\tb', '\t', 'a\nb', '\x1fa', 'a\x1f'],   # control separators (US, RS, TAB, LF)          # NUL characters (fixed-width string buffers pad with them)
    # digit strings of length >= 10: a decimal length prefix WITHOUT terminator is ambiguous here
    # ('1' + '2' + '12' + '012345678917' == '12' + '120123456789' + '1' + '7')
    ['2', '012345678917', '120123456789', '7', '1', '01234567891', '20123456789', '17'],
]


@st.composite
def case_strategy(draw):
    k = draw(st.integers(2, 5))
    nrows = draw(st.integers(2, 40))
    # values are drawn from one confusable group (plus a few from the whole pool), so that collisions of naive encodings are likely
    group = draw(st.sampled_from(GROUPS))
    sub = draw(st.lists(st.sampled_from(group), min_size=1, max_size=5, unique=True))
    sub = list(dict.fromkeys(sub + draw(st.lists(st.sampled_from(POOL), max_size=2))))
    cols = [draw(st.lists(st.sampled_from(sub), min_size=nrows, max_size=nrows)) for _ in range(k)]
    if group is GROUPS[-1] and nrows >= 2 and draw(st.booleans()):
        cols[0][0], cols[1][0] = '2', '012345678917'
        cols[0][1], cols[1][1] = '120123456789', '7'
    if any('\x1f' in v for v in group) and nrows >= 2 and draw(st.booleans()):
        # two different tuples that a separator-joined encoding confuses when the separator occurs inside a value
        sep = draw(st.sampled_from(['\x1f', '\x1e', '\t']))
        cols[0][0], cols[1][0] = 'shoes', 'red' + sep + 'sale'
        cols[0][1], cols[1][1] = 'shoes' + sep + 'red', 'sale'
    label = draw(st.lists(st.sampled_from(['0', '1']), min_size=nrows, max_size=nrows))
    order = draw(st.integers(2, min(4, k)))
    ncomb = math.comb(k, order)
    return {'cols': cols, 'label': label, 'label_pos': draw(st.integers(0, k)), 'order': order,
            'cap': draw(st.integers(1, ncomb + 2)),
            'index': draw(st.sampled_from(['range', 'range', 'range', 'shuffled', 'gaps', 'strings', 'bootstrap', 'stacked'])),
            # history: this many earlier mini-batches of the same columns went through the ranking loop's batch function in this
            # process (feature construction, ranking, cardinality / count bookkeeping); 'constant' = every column held one value there
            # (a stream sorted by day, a sparse flag that was empty so far) for the columns marked in prior_const, 'same' = the earlier batches had the same rows
            'prior': draw(st.sampled_from([0, 0, 0, 1, 2])), 'prior_kind': draw(st.sampled_from(['constant', 'constant', 'same'])),
            'prior_const': draw(st.lists(st.booleans(), min_size=k, max_size=k)),
            # column names that are not in lexicographic order in the frame ('user' before 'age', 'f10' before 'f2')
            'names': draw(st.sampled_from(['c', 'c', 'mixed'])),
            # columns stored with pandas' category dtype (string categories): values are the same strings
            'dtype': draw(st.sampled_from(['str', 'str', 'category'])),
            # cells of every other row are fresh string objects equal to the pooled ones (rows parsed from text next to rows taken from
            # a vocabulary): equality of values is what counts, not object identity
            'fresh_objects': draw(st.booleans())}


def build(case):
    k = len(case['cols'])
    names = [f'c{i}' for i in range(k)] if case.get('names', 'c') == 'c' else ['user', 'age', 'f10', 'city', 'f2'][:k]
    data = dict(zip(names, case['cols']))
    if case.get('fresh_objects'):
        data = {nm: [(v + 'x')[:-1] if i % 2 else v for i, v in enumerate(col)] for nm, col in data.items()}
    order_names = list(names)
    order_names.insert(min(case['label_pos'], k), 'label')
    data['label'] = case['label']
    df = pd.DataFrame({n: data[n] for n in order_names})
    kind = case.get('index', 'range')
    n = len(df)
    if kind == 'shuffled':      # e.g. a frame that was sorted / sampled before
        df.index = [(7 * i + 3) % n if n % 7 else n - 1 - i for i in range(n)]
    elif kind == 'gaps':        # e.g. a mask-filtered frame
        df.index = [3 * i + 2 for i in range(n)]
    elif kind == 'strings':
        df.index = [f'r{i}' for i in range(n)]
    elif kind == 'bootstrap':   # a resampled frame: row labels repeat
        df.index = [(5 * i + 1) % max(1, n - n // 3) for i in range(n)]
    elif kind == 'stacked':     # two frames stacked without ignore_index: labels 0..h-1, 0..n-h-1
        h = (n + 1) // 2
        df.index = list(range(h)) + list(range(n - h))
    if case.get('dtype') == 'category':
        for c in names:
            df[c] = df[c].astype('category')
    return df, names


def oracle(case, rec):
    df, feat = build(case)
    before = df.copy(deep=True)
    order, cap = int(case['order']), int(case['cap'])
    args = stubs.make_args(interaction_order=order, combination_number_upper_bound=cap, heuristic='MI-numba-randomized')
    stubs.reset_globals()
    for _ in range(int(case.get('prior', 0))):
        import logging
        names_in_order = list(df.columns)
        if case.get('prior_kind') == 'same':
            rows = [[str(df[c].iloc[i]) for c in names_in_order] for i in range(len(df))]
        else:
            const = {feat[j] for j, flag in enumerate(case.get('prior_const') or []) if flag and j < len(feat)} or set(names_in_order)
            rows = [[('0' if i % 2 else '1') if c == 'label' else str(df[c].iloc[0 if c in const else i % len(df)]) for c in names_in_order]
                    for i in range(max(2, len(df)))]
        cr.compute_batch_ranking(rows, set(), args, stubs.InlinePool(), names_in_order, logging.getLogger('c10'), stubs.PBar())
    if case.get('prior'):
        rec.cls('after-%s-earlier-batches' % case.get('prior_kind'))
    out = cr.compute_combined_features(df, args, stubs.PBar())
    if case.get('dtype') == 'category':
        rec.cls('category-dtype-columns')
    if case.get('names') == 'mixed':
        rec.cls('unsorted-column-names')
    rec.cls('order=%d' % order, 'capped' if cap < math.comb(len(feat), order) else 'uncapped', 'index=' + case.get('index', 'range'))
    if not df.equals(before):
        raise Violation('the input frame was modified in place', kind='C10/originals')
    if len(out) != len(df) or list(out.index) != list(df.index):
        raise Violation(f'row count / row labels changed: {len(df)} rows {list(df.index)[:5]} -> {len(out)} rows {list(out.index)[:5]}',
                        kind='C10/originals')
    if list(out.columns[:df.shape[1]]) != list(df.columns) or not out[list(df.columns)].equals(before):
        raise Violation('original columns are not preserved as a prefix of the result', kind='C10/originals')
    new_cols = list(out.columns[df.shape[1]:])
    feat_in_frame_order = [c for c in df.columns if c != 'label']
    valid = {' AND '.join(c): c for c in itertools.combinations(feat_in_frame_order, order)}
    expected_n = min(cap, len(valid))
    if len(new_cols) != expected_n or len(set(new_cols)) != len(new_cols):
        raise Violation(f'{len(new_cols)} interaction columns appended ({new_cols}), expected {expected_n} distinct ones '
                        f'(order {order}, {len(feat)} features, cap {cap})', kind='C10/columns')
    nt = False
    for name in new_cols:
        if name not in valid:
            raise Violation(f'appended column {name!r} is not an order-{order} combination of the feature columns joined by " AND "',
                            kind='C10/columns')
        combo = valid[name]
        tuples = [tuple(df[c].iloc[i] for c in combo) for i in range(len(df))]
        vals = out[name].tolist()
        if len(vals) != len(df) or any(not isinstance(v, str) or v == '' for v in vals):
            raise Violation(f'column {name!r} does not hold one value per row: {vals[:5]}', kind='C10/columns')
        first = {}
        seen_val = {}
        for i, (t, v) in enumerate(zip(tuples, vals)):
            if t in first and vals[first[t]] != v:
                raise Violation(f'{name!r}: rows {first[t]} and {i} agree on every constituent {t!r} but the interaction values differ',
                                kind='C10/iff')
            first.setdefault(t, i)
            if v in seen_val and tuples[seen_val[v]] != t:
                raise Violation(f'{name!r}: rows {seen_val[v]} and {i} have different constituent values {tuples[seen_val[v]]!r} vs {t!r} '
                                f'but the same interaction value', kind='C10/iff')
            seen_val.setdefault(v, i)
        distinct = set(tuples)
        concat = {}
        for t in distinct:
            concat.setdefault(''.join(t), set()).add(t)
        if any(len(s) > 1 for s in concat.values()) or (len(distinct) >= 2 and len(distinct) < len(tuples)):
            nt = True
        if any(len(s) > 1 for s in concat.values()):
            rec.cls('concatenation-ambiguous-tuples')
    rec.nt(nt, key=case)
    # score corollary: same scores as the explicit value tuple
    if new_cols:
        explicit = out.copy()
        for name in new_cols:
            combo = valid[name]
            explicit[name] = [json.dumps([df[c].iloc[i] for c in combo]) for i in range(len(df))]
        sargs = stubs.make_args(heuristic='MI-numba-randomized', target_ranking_only='True')

        def scores(frame):
            stubs.reset_globals()
            d = {}
            for a, b, s in cr.mixed_rank_graph(frame, sargs, stubs.InlinePool(), stubs.PBar()).triplet_scores:
                d[(a, b)] = float(s)
            return d
        s1, s2 = scores(out), scores(explicit)

        def codes(frame, col):
            vals = frame[col].tolist()
            o = sorted(set(vals))
            return [o.index(v) for v in vals]
        for k in s1:
            if k[0] != k[1] and (codes(out, k[0]) == codes(out, k[1])) != (codes(explicit, k[0]) == codes(explicit, k[1])):
                rec.cls('excluded-pair:self-rule-one-sided')   # see C02: identical code vectors are scored as a self pair
                continue
            if k not in s2 or abs(s1[k] - s2[k]) > 1e-4:
                raise Violation(f'score of {k} is {s1[k]!r} with the interaction feature but {s2.get(k)!r} with the explicit value tuple',
                                kind='C10/score')


@st.composite
def refmodel_case(draw):
    """Interaction features listed by a reference model (--reference_model_JSON): combinations of 2-4 features, also of another order than
    --interaction_order, with a prior (surrogate) or a non-prior heuristic name."""
    case = draw(case_strategy())
    k = len(case['cols'])
    sizes = [z for z in (2, 3, 4) if z <= k]
    combos = draw(st.lists(st.sampled_from(sizes).flatmap(lambda z: st.permutations(list(range(k))).map(lambda p: list(p[:z]))),
                           min_size=1, max_size=3))
    case['ref_combos'] = combos
    case['order'] = draw(st.sampled_from([1, 2, 2, 3]))
    case['ref_heuristic'] = draw(st.sampled_from(['MI-numba-randomized', 'surrogate-SGD']))
    case['prior'], case['dtype'], case['index'] = 0, 'str', 'range'
    return case


def oracle_refmodel(case, rec):
    import os
    import tempfile
    df, feat = build(case)
    before = df.copy(deep=True)
    order = min(int(case['order']), len(feat))
    combos = [tuple(sorted(feat[i] for i in c)) for c in case['ref_combos']]
    fd, path = tempfile.mkstemp(prefix='c10-ref-', suffix='.json')
    with os.fdopen(fd, 'w') as fh:
        json.dump({'desc': {'features': [','.join(feat[i] for i in c) for c in case['ref_combos']] + [feat[0]], 'fields': []}}, fh)
    try:
        args = stubs.make_args(interaction_order=order, combination_number_upper_bound=int(case['cap']), heuristic=case['ref_heuristic'],
                               reference_model_JSON=path)
        stubs.reset_globals()
        out = cr.compute_combined_features(df, args, stubs.PBar())
    finally:
        os.unlink(path)
    rec.nt(any(len(c) != order for c in combos), key=case)
    rec.cls('reference-combinations', 'prior-heuristic' if 'surrogate' in case['ref_heuristic'] else 'non-prior-heuristic')
    if list(out.columns[:df.shape[1]]) != list(df.columns) or not out[list(df.columns)].equals(before):
        raise Violation('original columns are not preserved as a prefix of the result', kind='C10/originals')
    new_cols = list(out.columns[df.shape[1]:])
    for combo in dict.fromkeys(combos):
        name = ' AND '.join(combo)
        if name not in new_cols:
            raise Violation(f'reference-model combination {combo} has no column {name!r}: new columns {new_cols}', kind='C10/columns')
        tuples = [tuple(df[c].iloc[i] for c in combo) for i in range(len(df))]
        t2v, v2t = {}, {}
        for i, (t, v) in enumerate(zip(tuples, out[name].tolist())):
            if t2v.setdefault(t, v) != v or v2t.setdefault(v, t) != t:
                raise Violation(f'{name!r} (reference-model combination of {len(combo)} features, --interaction_order {order}): row {i} with '
                                f'values {t!r} has interaction value {v!r}; seen before: {t2v.get(t)!r} for these values, {v2t.get(v)!r} for this '
                                f'interaction value', kind='C10/iff')
    if 'surrogate' not in case['ref_heuristic'] and set(new_cols) != {' AND '.join(c) for c in combos}:
        raise Violation(f'non-prior heuristic with a reference model: new columns {new_cols}, expected exactly the model combinations '
                        f'{sorted(set(" AND ".join(c) for c in combos))}', kind='C10/columns')


@st.composite
def wide_case(draw):
    """Production-size batch: two id-like columns whose joint values are all distinct. Any digest narrower than the stated
    64 bits collides here with near certainty (32 bits: P(no collision) < 1e-4 at 3*10^5 rows)."""
    pick = draw(st.integers(0, 4))
    if pick == 4:
        # a frame with 260-320 feature columns (more positions than a byte numbers), a few rows, order 2 under a cap
        return {'manycols': {'ncols': draw(st.integers(260, 320)), 'rows': draw(st.integers(6, 20)), 'cap': draw(st.integers(300, 700)),
                             'seed': draw(st.integers(0, 2**32 - 1))}}
    if pick == 3:
        # medium cardinalities: 12-40 values per column (more value combinations than a byte / a short can number), str or category dtype
        return {'medium': {'cards': draw(st.lists(st.integers(12, 40), min_size=2, max_size=3)), 'rows': draw(st.integers(300, 1500)),
                           'seed': draw(st.integers(0, 2**32 - 1)), 'dtype': draw(st.sampled_from(['category', 'category', 'str']))}}
    if pick == 0:
        # order 4 over four id columns with ~10^4 values each: the tuple SPACE exceeds 2^53 although the frame is small
        return {'order4': {'card': draw(st.integers(9800, 10400)), 'seed': draw(st.integers(0, 2**32 - 1))}}
    return {'n': draw(st.integers(300_000, 420_000)), 'seed': draw(st.integers(0, 2**32 - 1)), 'a_card': draw(st.sampled_from([600, 1000, 5000]))}


def oracle_wide(case, rec):
    import numpy as np
    if 'order4' in case:
        g = case['order4']
        card = int(g['card'])
        rng = np.random.Generator(np.random.PCG64(int(g['seed'])))
        ids = ['%05d' % i for i in range(card)]
        rows = [(ids[i], ids[i], ids[i], ids[i]) for i in range(card)]
        top = ids[-1]
        rows += [(top, top, top, ids[j]) for j in range(0, 6)] + [(top, top, ids[j], top) for j in range(0, 3)]   # neighbours at high codes
        order_ = rng.permutation(len(rows)).tolist()
        rows = [rows[i] for i in order_]
        df = pd.DataFrame(rows, columns=['a', 'b', 'c', 'd'])
        df['label'] = ['0', '1'] * (len(df) // 2) + ['0'] * (len(df) % 2)
        args = stubs.make_args(interaction_order=4, combination_number_upper_bound=2**15, heuristic='MI-numba-randomized')
        stubs.reset_globals()
        out = cr.compute_combined_features(df, args, stubs.PBar())
        if 'a AND b AND c AND d' not in out.columns:
            raise Violation(f'order-4 interaction of columns a, b, c, d (in frame order) is not named "a AND b AND c AND d": '
                            f'columns {list(out.columns)}', kind='C10/names')
        nd, nt_ = int(out['a AND b AND c AND d'].nunique()), len(set(rows))
        rec.nt(True, key=case)
        rec.cls('order4-wide-space')
        if nd != nt_:
            raise Violation(f'{nt_} distinct (a,b,c,d) tuples over {card} ids per column but {nd} distinct interaction values',
                            kind='C10/wide-digest')
        return
    if 'manycols' in case:
        g = case['manycols']
        rng = np.random.Generator(np.random.PCG64(int(g['seed'])))
        ncols, n = int(g['ncols']), int(g['rows'])
        names = [f'f{j:03d}' for j in range(ncols)]
        data = {nm: [f'v{int(v)}' for v in rng.integers(0, 4, size=n)] for nm in names}
        df = pd.DataFrame(data)
        df['label'] = ['0', '1'] * (n // 2) + ['0'] * (n % 2)
        args = stubs.make_args(interaction_order=2, combination_number_upper_bound=int(g['cap']), heuristic='MI-numba-randomized')
        stubs.reset_globals()
        out = cr.compute_combined_features(df, args, stubs.PBar())
        new_cols = list(out.columns[df.shape[1]:])
        rec.nt(True, key=case)
        rec.cls('frame>256-columns')
        high = 0
        for name in new_cols:
            parts = name.split(' AND ')
            if len(parts) != 2 or any(p not in data for p in parts):
                raise Violation(f'appended column {name!r} is not a pair of feature columns', kind='C10/names')
            high += any(int(p[1:]) >= 256 for p in parts)
            t2v, v2t = {}, {}
            for t, v in zip(zip(data[parts[0]], data[parts[1]]), out[name].tolist()):
                if t2v.setdefault(t, v) != v or v2t.setdefault(v, t) != t:
                    raise Violation(f'{name!r} in a frame of {ncols} feature columns: value pairs and interaction values are not in '
                                    f'bijection (pair {t!r} -> {v!r}, seen before: {t2v.get(t)!r} / {v2t.get(v)!r})', kind='C10/iff')
        if high:
            rec.cls('interaction-uses-column-position>=256')
        return
    if 'medium' in case:
        g = case['medium']
        rng = np.random.Generator(np.random.PCG64(int(g['seed'])))
        names = ['city', 'device', 'hour'][:len(g['cards'])]
        n = int(g['rows'])
        data = {nm: [f'{nm}_{int(v)}' for v in rng.integers(0, int(c), size=n)] for nm, c in zip(names, g['cards'])}
        df = pd.DataFrame(data)
        if g['dtype'] == 'category':
            df = df.astype('category')
        df['label'] = ['0', '1'] * (n // 2) + ['0'] * (n % 2)
        order = len(names)
        args = stubs.make_args(interaction_order=order, combination_number_upper_bound=2**15, heuristic='MI-numba-randomized')
        stubs.reset_globals()
        out = cr.compute_combined_features(df, args, stubs.PBar())
        name = ' AND '.join(names)
        if name not in out.columns:
            raise Violation(f'interaction of {names} is not named {name!r}: columns {list(out.columns)}', kind='C10/names')
        tuples = list(zip(*[data[nm] for nm in names]))
        vals = out[name].tolist()
        t2v, v2t = {}, {}
        for t, v in zip(tuples, vals):
            if t2v.setdefault(t, v) != v or v2t.setdefault(v, t) != t:
                raise Violation(f'{name!r} ({g["dtype"]} columns with {g["cards"]} values): value tuples and interaction values are not '
                                f'in bijection, e.g. tuple {t!r} -> {v!r} while {v2t.get(v)!r} / {t2v.get(t)!r} were seen before '
                                f'({len(set(tuples))} distinct tuples, {len(set(vals))} distinct values)', kind='C10/wide-digest')
        rec.nt(True, key=case)
        rec.cls('medium-cardinalities:' + g['dtype'])
        return
    n, a_card = int(case['n']), int(case['a_card'])
    rng = np.random.Generator(np.random.PCG64(int(case['seed'])))
    idx = rng.permutation(n)
    df = pd.DataFrame({'user_id': [f'u{i % a_card}' for i in idx], 'item_id': [f'i{i // a_card}' for i in idx],
                       'label': ['0', '1'] * (n // 2) + ['0'] * (n % 2)})
    args = stubs.make_args(interaction_order=2, combination_number_upper_bound=2**15, heuristic='MI-numba-randomized')
    stubs.reset_globals()
    out = cr.compute_combined_features(df, args, stubs.PBar())
    col = out['user_id AND item_id']
    nd = int(col.nunique())
    rec.nt(True, key=case)
    rec.cls('wide-frame')
    if nd != n:
        raise Violation(f'{n} rows with pairwise different (user_id, item_id) values but only {nd} distinct interaction values: '
                        f'the digest is narrower than the stated 64 bits', kind='C10/wide-digest')


KINDS = ['C10/interaction', 'C10/originals', 'C10/columns', 'C10/iff', 'C10/score']
ORACLES = {k: oracle for k in KINDS}
ORACLES['C10/wide-digest'] = oracle_wide
ORACLES['C10/names'] = oracle_wide
ORACLES['C10/reference-combinations'] = oracle_refmodel


def run(ctx):
    drive(ctx, [Clause('C10/interaction', case_strategy, oracle, quick=1200, thorough=40000, quick_shards=8),
                Clause('C10/reference-combinations', refmodel_case, oracle_refmodel, quick=300, thorough=12000, quick_shards=4),
                Clause('C10/wide-digest', wide_case, oracle_wide, quick=12, thorough=128, quick_shards=6, thorough_shards=16)])
