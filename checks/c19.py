"""C19 - synthetic categorical data respects its declared shape, domains and seed."""
from __future__ import annotations

import csv
import os
import shutil
import tempfile
import traceback

import numpy as np
from hypothesis import strategies as st

from vlib import stubs
from vlib.harness import Clause, Violation, drive

from outrank import task_generators
from outrank.algorithms.synthetic_data_generators import generator_naive
from outrank.algorithms.synthetic_data_generators.cc_generator import CategoricalClassification

ID = 'C19'
RULE = ('generate_data: parameters (n_features 1-12, cardinality 1-40, low, high, k, seed, ensure_rep, random_values with '
        'cardinality <= high-low+1) drawn by Hypothesis; structures built by construction from a sorted index subset split '
        'into single-index / index-list entries, each with an int cardinality (!= default), a value list or a '
        '[values, frequencies] pair whose values lie in a per-entry range disjoint from the default range; entries are passed '
        'as plain lists or as tuples/ndarrays; n_samples free (1-300) or straddling a domain size (|D|-1, |D|, |D|+1). '
        'Non-trivial: domain clause - structure with >= 2 entries of different kinds and >= 1 gap column; ensure-rep clause - some column with n in {|D|, |D|+1}; replay clause - array not '
        'constant and a different seed gives a different array; naive - both label values present and a repeated needle '
        'value; csv - file parsed with >= 2 data rows. Distinct = digest of the case. Every call is preceded by '
        'np.random.seed(value from the case).')
ASSUMPTIONS = [
    'declared domain of an int cardinality c is {low..low+c-1}, or with random_values any <= c distinct values in [low, high]',
    'with random_values and ensure_rep the domain is the (unobservable) draw of c distinct values, so "every value present" '
    'is checked as: number of distinct values == c',
    'structure indices are strictly increasing and < n_features (what the gap-filling loop supports)',
    'naive generator: num_features >= 31 (needle index 30 is hard-coded)',
    'same-arguments replay is asserted on the same instance and on a second instance, with different global RNG states before the calls',
]

CC = CategoricalClassification
K_VALUES = [10, 10, 1, 2, 0.5, 25, 100, 3.7]
LOWS = [0, 0, 1, -3, 7, 100, -1000, 50000]


# ---- strategies ----------------------------------------------------------------------------------

@st.composite
def data_params(draw, rep=None, structure=None, max_n=300):
    nf = draw(st.integers(1, 12))
    card = draw(st.one_of(st.integers(1, 8), st.integers(1, 40)))
    low = draw(st.sampled_from(LOWS))
    random_values = draw(st.booleans())
    if random_values:
        wide = draw(st.integers(0, 39)) == 0        # now and then a range wider than 2^18 candidates (each draw permutes the range: slow)
        high = low + card - 1 + (300_000 if wide else draw(st.sampled_from([0, 0, 1, 5, 50, 1000])))
    else:
        high = draw(st.sampled_from([1000 + low, low, low + card]))
    k = draw(st.sampled_from(K_VALUES))
    seed = draw(st.integers(0, 2**32 - 1))
    ensure_rep = draw(st.booleans()) if rep is None else rep
    sizes = [card]
    struct = None
    if (draw(st.booleans()) if structure is None else structure):
        idxs = sorted(draw(st.sets(st.integers(0, nf - 1), min_size=1, max_size=nf)))
        cmax = min(40, high - low + 1) if random_values else 40
        ccand = [c for c in range(1, cmax + 1) if c != card]
        top = max(high, low + max(card, cmax))
        struct, pos, e = [], 0, 0
        while pos < len(idxs):
            if draw(st.booleans()):
                glen = draw(st.integers(1, len(idxs) - pos))
                ix = idxs[pos:pos + glen]
                pos += glen
            else:
                ix = idxs[pos]
                pos += 1
            kind = draw(st.sampled_from(['card', 'values', 'valfreq'] if ccand else ['values', 'valfreq']))
            e += 1
            if kind == 'card':
                attrs = draw(st.sampled_from(ccand))
                sizes.append(attrs)
            else:
                base = top + 1000 * e
                vals = draw(st.lists(st.integers(base, base + 60), min_size=1, max_size=12, unique=True))
                sizes.append(len(vals))
                if kind == 'values':
                    attrs = vals
                else:
                    # frequencies may be exactly 0 for some values (never drawn at random, but still part of the declared domain)
                    w = draw(st.lists(st.integers(0, 9), min_size=len(vals), max_size=len(vals)))
                    if not any(w):
                        w[0] = 1
                    tot = sum(w)
                    attrs = [vals, [x / tot for x in w]]
            struct.append([ix, attrs])
    if draw(st.booleans()) or rep:
        n = max(1, draw(st.sampled_from(sizes)) + draw(st.sampled_from([-1, 0, 0, 1])))
    else:
        n = draw(st.one_of(st.integers(1, 12), st.integers(1, max_n)))
    return {'n_features': nf, 'n_samples': n, 'cardinality': card, 'low': low, 'high': high, 'k': k, 'seed': seed,
            'ensure_rep': ensure_rep, 'random_values': random_values, 'structure': struct,
            'containers': draw(st.sampled_from(['list', 'array'])), 'np_seed': draw(st.integers(0, 2**32 - 1)),
            # history of the generator object: 0 = fresh object; otherwise the object has already produced a data set for the same
            # sizes/structure/seed but a value range shifted by this much (all argument constraints are translation-invariant)
            'prior_shift': draw(st.sampled_from([0, 0, 13, -5, 1000])),
            # the earlier call was given the SAME structure object, whose value lists were edited in place since
            'same_structure_object': draw(st.booleans())}


@st.composite
def large_params(draw):
    """33 000 - 80 000 samples (more than any internal row block), same argument space otherwise."""
    case = draw(data_params())
    case['n_samples'] = draw(st.integers(33_000, 80_000))
    if case['random_values'] and case['high'] - case['low'] > 5000:
        case['high'] = case['low'] + case['cardinality'] - 1 + 1000
        for ix, attrs in (case['structure'] or []):
            pass
    return case


@st.composite
def replay_case(draw):
    case = draw(data_params(max_n=120))
    case['np_seed2'] = (case['np_seed'] + 1 + draw(st.integers(0, 1000))) % 2**32
    case['alt_seed'] = (case['seed'] + 1 + draw(st.integers(0, 1000))) % 2**32
    case['fresh_instance'] = draw(st.booleans())
    return case


@st.composite
def naive_case(draw):
    return {'num_features': draw(st.integers(31, 60)),
            'size': draw(st.one_of(st.integers(1, 40), st.integers(1, 2000))),
            'np_seed': draw(st.integers(0, 2**32 - 1))}


@st.composite
def csv_case(draw):
    return {'num_features': draw(st.integers(31, 60)), 'rows': draw(st.one_of(st.integers(1, 5), st.integers(1, 400))),
            'np_seed': draw(st.integers(0, 2**32 - 1)), 'name': draw(st.sampled_from(['out', 'test_data_synthetic', 'a_b'])),
            'preexisting': draw(st.booleans())}


@st.composite
def csv_big_case(draw):
    """Row counts in the hundreds of thousands (the CLI default is 10^6): whatever way the file is written, every requested row is there."""
    return {'num_features': draw(st.integers(31, 33)), 'rows': draw(st.one_of(st.integers(200_001, 420_000), st.sampled_from([250_001, 333_334, 399_999]))),
            'np_seed': draw(st.integers(0, 2**32 - 1)), 'name': 'big_out', 'preexisting': False}


# ---- helpers -------------------------------------------------------------------------------------

def materialize_structure(case):
    s = case['structure']
    if s is None:
        return None
    if case['containers'] == 'list':
        import copy
        return [[copy.deepcopy(ix), copy.deepcopy(attrs)] for ix, attrs in s]      # the caller's own objects (never the case's)
    out = []
    for ix, attrs in s:
        ix2 = np.array(ix) if isinstance(ix, list) else ix
        if isinstance(attrs, list):
            attrs2 = [np.array(attrs[0]), np.array(attrs[1])] if isinstance(attrs[0], list) else np.array(attrs)
        else:
            attrs2 = np.int64(attrs)        # a cardinality taken from numpy (np.unique(...).size, df.nunique(), an int array row)
        out.append([ix2, attrs2])
    return out


def cut(kind, fn, *a, **k):
    """Call into the code under test; an exception on a generated (in-domain) input is a violation <kind>/exception.
    (Done here because frames of compiled numpy code carry relative file names that the harness cannot attribute.)"""
    try:
        return fn(*a, **k)
    except Exception as e:  # noqa: BLE001
        tb = ''.join(traceback.format_exception(type(e), e, e.__traceback__)[-4:])
        raise Violation(f'code under test raised {type(e).__name__}: {e}\n{tb}', kind=kind + '/exception') from e


def _edit_in_place(structure, delta):
    """Shift every explicit value of the structure by delta WITHOUT replacing the value containers (lists / arrays are edited in
    place); cardinality entries are replaced inside their (list) entry."""
    for entry in structure:
        attrs = entry[1]
        if isinstance(attrs, (list, np.ndarray)) and len(attrs) and isinstance(attrs[0], (list, np.ndarray)):
            vals = attrs[0]
            vals[:] = [int(v) + delta for v in vals] if isinstance(vals, list) else vals + delta
        elif isinstance(attrs, (list, np.ndarray)):
            attrs[:] = [int(v) + delta for v in attrs] if isinstance(attrs, list) else attrs + delta


def call_generate(cc, case, np_seed, seed=None, kind='C19/domain', structure_obj=None):
    shift = int(case.get('prior_shift') or 0)
    structure = materialize_structure(case) if structure_obj is None else structure_obj
    if shift:
        np.random.seed((np_seed + 17) % 2**32)
        prior_structure = structure if case.get('same_structure_object') and structure is not None else materialize_structure(case)
        if structure is not None and prior_structure is structure:
            _edit_in_place(structure, 7)          # the caller's structure held other values at the time of the earlier call
        cut(kind, cc.generate_data,
            n_features=case['n_features'], n_samples=case['n_samples'], cardinality=case['cardinality'],
            structure=prior_structure, ensure_rep=case['ensure_rep'], random_values=case['random_values'],
            low=case['low'] + shift, high=case['high'] + shift, k=case['k'], seed=case['seed'] if seed is None else seed)
        if structure is not None and prior_structure is structure:
            _edit_in_place(structure, -7)         # ... and was edited in place (same objects) before this call
    np.random.seed(np_seed)
    return cut(
        kind, cc.generate_data,
        n_features=case['n_features'], n_samples=case['n_samples'], cardinality=case['cardinality'],
        structure=structure, ensure_rep=case['ensure_rep'], random_values=case['random_values'],
        low=case['low'], high=case['high'], k=case['k'], seed=case['seed'] if seed is None else seed)


def column_specs(case):
    """Per column: ('card', c) | ('values', [..]) and whether it is a structure column."""
    specs = [(('card', case['cardinality']), False)] * case['n_features']
    for ix, attrs in (case['structure'] or []):
        spec = ('card', attrs) if not isinstance(attrs, list) else \
            ('values', attrs[0] if isinstance(attrs[0], list) else attrs)
        for i in (ix if isinstance(ix, list) else [ix]):
            specs[i] = (spec, True)
    return specs


def domain_size(spec):
    return spec[1] if spec[0] == 'card' else len(spec[1])


def structure_profile(case):
    s = case['structure'] or []
    kinds = set()
    for ix, attrs in s:
        kinds.add(('list' if isinstance(ix, list) else 'index',
                   'card' if not isinstance(attrs, list) else 'valfreq' if isinstance(attrs[0], list) else 'values'))
    covered = {i for ix, _ in s for i in (ix if isinstance(ix, list) else [ix])}
    gaps = case['n_features'] - len(covered)
    return s, kinds, gaps


# ---- oracles -------------------------------------------------------------------------------------

def oracle_domain(case, rec):
    X = call_generate(CC(), case, case['np_seed'])
    s, kinds, gaps = structure_profile(case)
    if s:
        nt = len(s) >= 2 and len(kinds) >= 2 and gaps >= 1
        rec.nt(nt, key=case)
        rec.cls('structure', *('entry=%s/%s' % kd for kd in sorted(kinds)))
        if nt:
            rec.cls('structure:>=2-kinds+gap')
    else:
        rec.cls('no-structure')
    rec.cls('random_values' if case['random_values'] else 'range-values', 'reused-generator' if case.get('prior_shift') else 'fresh-generator')
    if not isinstance(X, np.ndarray) or X.shape != (case['n_samples'], case['n_features']):
        raise Violation(f'shape {getattr(X, "shape", None)} != (n_samples, n_features) = '
                        f'({case["n_samples"]}, {case["n_features"]})', kind='C19/shape')
    if X.dtype != np.int32:
        raise Violation(f'dtype {X.dtype} is not int32', kind='C19/shape')
    low, high = case['low'], case['high']
    for j, (spec, is_struct) in enumerate(column_specs(case)):
        col = X[:, j].tolist()
        vals = sorted(set(col))
        where = f'column {j} ({"structure " + repr(spec) if is_struct else "default"})'
        if spec[0] == 'values':
            extra = [v for v in vals if v not in set(spec[1])]
            if extra:
                raise Violation(f'{where}: values {extra[:6]} are not in the declared value list {spec[1]}; '
                                f'column values {vals[:12]}')
        elif case['random_values']:
            if vals[0] < low or vals[-1] > high or len(vals) > spec[1]:
                raise Violation(f'{where}: random-valued feature must have <= {spec[1]} distinct values in '
                                f'[{low}, {high}], got {len(vals)} distinct in [{vals[0]}, {vals[-1]}]')
        else:
            if vals[0] < low or vals[-1] > low + spec[1] - 1:
                raise Violation(f'{where}: values must lie in [{low}, {low + spec[1] - 1}], got {vals[:12]}')


def oracle_ensure_rep(case, rec, known_eq=False):
    X = call_generate(CC(), case, case['np_seed'], kind='C19/ensure-rep')
    n = case['n_samples']
    hit = False
    for j, (spec, is_struct) in enumerate(column_specs(case)):
        d = domain_size(spec)
        if n < d:
            rec.cls('n<|D|')
            continue
        if n == d and known_eq:
            rec.cls('excluded:n==|D|')
            continue
        hit = hit or n in (d, d + 1)
        rec.cls('n==|D|' if n == d else 'n==|D|+1' if n == d + 1 else 'n>|D|+1')
        vals = set(X[:, j].tolist())
        where = f'column {j} ({"structure " + repr(spec) if is_struct else "default"})'
        if spec[0] == 'values':
            missing = sorted(set(spec[1]) - vals)
        elif case['random_values']:
            if len(vals) != d:
                raise Violation(f'{where}: ensure_rep with n_samples={n} >= cardinality {d} but only {len(vals)} of the '
                                f'{d} randomly drawn values occur')
            continue
        else:
            missing = sorted(set(range(case['low'], case['low'] + d)) - vals)
        if missing:
            raise Violation(f'{where}: ensure_rep with n_samples={n} >= |domain|={d} but values {missing[:8]} never occur '
                            f'(column has {sorted(vals)[:12]})')
    rec.nt(hit, key=case)


def oracle_replay(case, rec):
    cc, cc2 = CC(), CC()
    # one structure object for both generations in half of the cases (a caller keeps its structure description around)
    shared = materialize_structure(case) if case.get('alt_seed', 0) % 2 else None
    if shared is not None:
        rec.cls('same-structure-object-for-both-generations')
    A = call_generate(cc, case, case['np_seed'], kind='C19/replay', structure_obj=shared)
    B = call_generate(cc2 if case['fresh_instance'] else cc, case, case['np_seed2'], kind='C19/replay', structure_obj=shared)
    C = call_generate(cc, case, case['np_seed'], seed=case['alt_seed'], kind='C19/replay')
    differs = A.shape == C.shape and not np.array_equal(A, C)
    rec.cls('seed-sensitive' if differs else 'seed-insensitive', 'fresh' if case['fresh_instance'] else 'same-instance')
    rec.nt(differs and len(np.unique(A)) > 1, key=case)
    if A.shape != B.shape or A.dtype != B.dtype or not np.array_equal(A, B):
        nd = int(np.sum(A != B)) if A.shape == B.shape else -1
        raise Violation(f'same arguments and seed={case["seed"]} gave different arrays ({nd} of {A.size} cells differ) when '
                        f'the global RNG state before the calls differed')


def _needle_function(needle, label):
    seen = {}
    for a, b in zip(needle, label):
        if seen.setdefault(a, b) != b:
            return a, seen[a], b
    return None


def oracle_naive(case, rec):
    nf, size = case['num_features'], case['size']
    np.random.seed(case['np_seed'])
    sample, target = cut('C19/naive', generator_naive.generate_random_matrix, nf, size)
    sample, target = np.array(sample), np.array(target)
    if sample.shape != (size, nf) or target.shape != (size,):
        raise Violation(f'shapes {sample.shape}, {target.shape} for num_features={nf}, size={size}', kind='C19/shape')
    needle, label = sample[:, 30].tolist(), target.tolist()
    rec.nt(len(set(label)) == 2 and len(set(needle)) < size, key=case)
    rec.cls('size<=40' if size <= 40 else 'size>40')
    bad = _needle_function(needle, label)
    if bad is not None:
        raise Violation(f'label is not a function of column 30: needle value {bad[0]} has labels {bad[1]} and {bad[2]}')
    np.random.seed(case['np_seed'])
    s2, t2 = cut('C19/naive', generator_naive.generate_random_matrix, nf, size)
    if not (np.array_equal(sample, s2) and np.array_equal(target, t2)):
        raise Violation('same global seed and arguments gave a different naive data set')


def oracle_csv(case, rec):
    nf, rows = case['num_features'], case['rows']
    args = stubs.make_args(task='data_generator', generator_type='naive', num_synthetic_features=nf,
                           num_synthetic_rows=rows, output_synthetic_df_name=case['name'])
    tmp = tempfile.mkdtemp(prefix='c19-', dir='/tmp')
    cwd = os.getcwd()
    try:
        os.chdir(tmp)
        if case['preexisting']:
            os.mkdir(case['name'])
            with open(os.path.join(case['name'], 'stale.txt'), 'w') as fh:
                fh.write('x')
            # the folder of an earlier run with another shape: its data.csv is still there
            with open(os.path.join(case['name'], 'data.csv'), 'w') as fh:
                fh.write(','.join([f'f{i}' for i in range(nf + 3)] + ['label']) + '\n')
                for i in range(rows + 7):
                    fh.write(','.join(['1'] * (nf + 4)) + '\n')
        np.random.seed(case['np_seed'])
        cut('C19/csv', task_generators.outrank_task_generate_data_set, args)
        path = os.path.join(tmp, case['name'], 'data.csv')
        if not os.path.isfile(path):
            raise Violation(f'{case["name"]}/data.csv was not written')
        if rows > 50000:
            import pandas as pd
            frame = pd.read_csv(path, dtype=str, keep_default_na=False, na_filter=False, header=None)
            table = frame.values.tolist()
            rec.cls('rows>=200000')
        else:
            with open(path, newline='') as fh:
                table = list(csv.reader(fh))
    finally:
        os.chdir(cwd)
        shutil.rmtree(tmp, ignore_errors=True)
    header, body = table[0], table[1:]
    rec.nt(len(body) >= 2, key=case)
    rec.cls('preexisting-dir' if case['preexisting'] else 'new-dir')
    want = [f'f{i}' for i in range(nf)] + ['label']
    if header != want:
        raise Violation(f'header has {len(header)} columns ending {header[-3:]}, expected {nf} features f0..f{nf - 1} '
                        f'followed by label')
    if len(body) != rows or any(len(r) != nf + 1 for r in body):
        raise Violation(f'data.csv has {len(body)} rows of widths {sorted(set(len(r) for r in body))[:4]}, expected '
                        f'{rows} rows of {nf + 1} fields')
    bad = _needle_function([r[30] for r in body], [r[-1] for r in body])
    if bad is not None:
        raise Violation(f'last column is not a function of f30: needle {bad[0]} has labels {bad[1]} and {bad[2]}')


ORACLES = {'C19/large': oracle_domain, 'C19/domain': oracle_domain, 'C19/shape': oracle_domain, 'C19/ensure-rep': oracle_ensure_rep,
           'C19/replay': oracle_replay, 'C19/naive': oracle_naive, 'C19/csv': oracle_csv, 'C19/csv-big': oracle_csv}


def run(ctx):
    known_eq = ctx.known('ensure-rep-n-equals-domain')

    def rep_oracle(case, rec):
        return oracle_ensure_rep(case, rec, known_eq)
    clauses = [
        Clause('C19/domain', lambda: data_params(), oracle_domain, quick=3200, thorough=288000, quick_shards=4),
        Clause('C19/ensure-rep', lambda: data_params(rep=True), rep_oracle, quick=2100, thorough=216000, quick_shards=3),
        Clause('C19/large', large_params, lambda case, rec: (oracle_domain(case, rec), oracle_ensure_rep(case, rec, known_eq) if case['ensure_rep'] else None) and None,
               quick=4, thorough=64, quick_shards=4, thorough_shards=16),
        Clause('C19/replay', replay_case, oracle_replay, quick=1200, thorough=144000, quick_shards=3),
        Clause('C19/naive', naive_case, oracle_naive, quick=400, thorough=72000, quick_shards=2),
        Clause('C19/csv', csv_case, oracle_csv, quick=160, thorough=28800, quick_shards=2),
        Clause('C19/csv-big', csv_big_case, oracle_csv, quick=2, thorough=32, quick_shards=2, thorough_shards=16),
    ]
    drive(ctx, clauses)
    c = ctx.stats.classes
    ctx.extra['ensure_rep_columns_at_domain_size'] = c.get('n==|D|', 0)
    ctx.extra['ensure_rep_columns_at_domain_size_plus_1'] = c.get('n==|D|+1', 0)
