"""C07 - capped combination sampling is fair over any sequence of batches (history / model based)."""
from __future__ import annotations

import itertools
from collections import Counter

import pandas as pd
from hypothesis import strategies as st

from vlib import stubs
from vlib.harness import Clause, Stats, Violation, drive, run_sharded

from outrank import core_ranking as cr

ID = 'C07'
RULE = ('Histories: a duplicate-free candidate list (1-60 tuples of strings / ints / mixed arity) and a sequence of up to 40 '
        'batches, each with its own cap in 1..len+3 (caps change between steps); in "pipeline" histories the candidates are the '
        'feature-label pairs of a fixed column set and some batches go through mixed_rank_graph (heuristic Constant, target-only) '
        'so the real call site and its in-place shuffle are exercised; in "multi" histories two or three disjoint stable lists '
        'share the sampler and every batch names the list it samples from (fairness is asserted per list); "prior" histories run '
        'mixed_rank_graph under a reference-model heuristic with an owned pool that records the submitted combinations; "large" '
        'histories use 10 001-13 000 candidates with caps around and above 10^4; "overlap" histories alternate two lists that share '
        'candidates (per-batch clauses only); "construction" histories observe the sampler through compute_combined_features. After every batch the model (a Counter of selections) '
        'and the invariants are checked. Exhaustive: every cap sequence of length <=5 (caps 1..len+1) over lists of 1-4 '
        'candidates. Non-trivial = >=3 batches, some cap < len and >=2 different caps; distinct = digest of the history.')
ASSUMPTIONS = ['the oracle does not require a particular tie order among equally counted candidates',
               'fairness is asserted for a stable duplicate-free list only (as stated)']


def member():
    return st.one_of(st.text(alphabet='abcXY1 -', min_size=0, max_size=4), st.integers(-3, 50))


@st.composite
def direct_history(draw):
    n = draw(st.one_of(st.integers(1, 8), st.integers(1, 60)))
    arity = draw(st.sampled_from([1, 2, 2, 3]))
    cands = draw(st.lists(st.lists(member(), min_size=arity, max_size=arity).map(tuple), min_size=n, max_size=n, unique=True))
    steps = draw(st.lists(st.one_of(st.integers(1, len(cands) + 3), st.integers(0, len(cands) + 3)), min_size=1, max_size=40))   # a cap of 0 selects nothing
    # fast-forward: the state after `rounds` complete rounds (every candidate evaluated that often) is the starting point, as if the
    # process had already consumed that many batches with a non-binding cap
    rounds = draw(st.sampled_from([0, 0, 0, 254, 255, 32766, 32767, 65534, 65535, 65536, 2**31 - 2]))
    return {'mode': 'direct', 'cands': [list(c) for c in cands], 'steps': [['d', c] for c in steps], 'rounds': rounds}


@st.composite
def large_history(draw):
    """Candidate lists and caps beyond 10^4 (the 3MR-only clamp must not leak into other heuristics)."""
    n = draw(st.one_of(st.integers(10_001, 13_000), st.integers(10_001, 13_000), st.integers(33_000, 70_000)))   # also beyond the default cap 2^15
    steps = draw(st.lists(st.one_of(st.integers(9_990, 10_010), st.integers(10_001, n + 3), st.integers(1, n + 3),
                                    st.sampled_from([2**15 - 1, 2**15, 2**15 + 1, 2**16])),
                          min_size=2, max_size=4))
    return {'mode': 'direct', 'cands_gen': n, 'steps': [['d', c] for c in steps]}


@st.composite
def prior_history(draw):
    """Pipeline histories under a prior (reference-model) heuristic: combinations that involve reference-model features
    are not candidates; the owned pool records which combinations are submitted for evaluation."""
    ncols = draw(st.integers(3, 10))
    names = [f'c{i}' for i in range(ncols)]
    pos = draw(st.integers(0, ncols))
    names.insert(pos, 'label')
    ref = draw(st.lists(st.sampled_from([n for n in names if n != 'label']), min_size=1, max_size=max(1, ncols - 2), unique=True))
    steps = draw(st.lists(st.integers(1, len(names) + 2), min_size=1, max_size=12))
    return {'mode': 'prior', 'cols': names, 'ref': ref, 'steps': [['p', c] for c in steps]}


@st.composite
def overlap_history(draw):
    """Two stable lists that SHARE candidates (as the construction list combinations(features, 2) sits inside the ranking list
    combinations_with_replacement(features, 2) under --interaction_order 2). Counts are then shared, so only per-batch clauses
    are asserted: cap distinct candidates, taken from the least-evaluated ones, counts = selections."""
    k = draw(st.integers(3, 7))
    feats = [f'f{i}' for i in range(k)]
    steps = draw(st.lists(st.tuples(st.integers(0, 1), st.integers(1, 8)).map(list), min_size=2, max_size=30))
    return {'mode': 'overlap', 'feats': feats, 'steps': steps}


@st.composite
def construction_history(draw):
    """The feature-construction call site (compute_combined_features) over several batches: which interaction columns are
    built is what the sampler selected there."""
    k = draw(st.integers(3, 7))
    order = draw(st.sampled_from([2, 2, 3])) if k >= 4 else 2
    steps = draw(st.lists(st.integers(1, 12), min_size=2, max_size=14))
    return {'mode': 'construction', 'k': k, 'order': order, 'steps': [['c', c] for c in steps]}


@st.composite
def multi_history(draw):
    """Two or three disjoint stable candidate lists share the sampler (as the feature-construction and the
    scoring call sites do); every step names the list it samples from."""
    nl = draw(st.integers(2, 3))
    lists = []
    for li in range(nl):
        n = draw(st.integers(1, 25))
        arity = draw(st.sampled_from([2, 3]))
        lists.append([[f'L{li}m{i}'] + [f'x{j}' for j in range(arity - 1)] for i in range(n)])
    steps = draw(st.lists(st.tuples(st.integers(0, nl - 1), st.integers(1, 8)).map(list), min_size=2, max_size=40))
    return {'mode': 'multi', 'lists': lists, 'steps': steps}


@st.composite
def crowded_history(draw):
    """The shared counter already tracks more than 10^6 combinations (as after --interaction_order 2 on ~1500 columns) when two small
    lists are sampled in turn."""
    case = draw(multi_history())
    case['crowd'] = 1_000_000 + draw(st.integers(1, 5000))
    return case


@st.composite
def pipeline_history(draw):
    ncols = draw(st.integers(1, 12))
    names = [f'c{i}' for i in range(ncols)]
    pos = draw(st.integers(0, ncols))
    names.insert(pos, 'label')
    n = len(names)
    steps = draw(st.lists(st.tuples(st.sampled_from(['d', 'p', 'p', 'pn']), st.integers(1, n + 3)).map(list), min_size=1, max_size=30))
    return {'mode': 'pipeline', 'cols': names, 'steps': steps}


@st.composite
def pipeline3mr_history(draw):
    """Pipeline histories under a 3MR heuristic (target-only): the candidate list is every pair of non-relation columns plus each
    relation column with the label - stable and duplicate-free, so the fairness clause applies."""
    ncols = draw(st.integers(2, 6))
    names = [f'c{i}' for i in range(ncols)]
    names.insert(draw(st.integers(0, ncols)), 'label')
    rel = draw(st.lists(st.tuples(st.integers(0, ncols - 1), st.integers(0, ncols - 1)), min_size=0, max_size=3, unique=True))
    names += [f'c{a} AND_REL c{b}' for a, b in rel]
    n = len(candidates_3mr(names))
    steps = draw(st.lists(st.tuples(st.sampled_from(['d', 'p', 'p']), st.integers(1, n + 2)).map(list), min_size=2, max_size=12))
    return {'mode': 'pipeline3mr', 'cols': names, 'steps': steps, 'ncpus': draw(st.sampled_from([1, 2, 3, 4, 7, 8]))}


def candidates_3mr(cols, label='label'):
    rel = [c for c in cols if ' AND_REL ' in c]
    non = sorted(set(cols) - set(rel))
    return list(itertools.combinations_with_replacement(non, 2)) + [(c, label) for c in rel]


@st.composite
def task_history(draw):
    """The whole ranking task on a generated csv file: k full mini-batches and a tail of t rows (used when t > 1024), a binding cap,
    Constant heuristic. The counts the task reports (combination_estimation_counts.json) must equal the selections made."""
    ncols = draw(st.integers(3, 8))
    return {'mode': 'task', 'ncols': ncols, 'm': draw(st.integers(1026, 1200)), 'k': draw(st.integers(0, 3)),
            't': draw(st.sampled_from([0, 300, 1024, 1025, 1100])), 'cap': draw(st.integers(1, ncols + 1)),
            'label_pos': draw(st.integers(0, ncols - 1)),
            # scoring heuristic with the noise-baseline (CONTROL-*) columns added to every batch: their pairs are candidates like any other
            'noise': draw(st.sampled_from([False, False, True]))}


def check_task(case, rec):
    import csv
    import json
    import os
    import shutil
    import tempfile

    from outrank import task_ranking as tr
    ncols, m = int(case['ncols']), int(case['m'])
    nrows = int(case['k']) * m + int(case['t'])
    nb = int(case['k']) + (1 if int(case['t']) > 1024 else 0)
    cols = [f'f{i}' for i in range(ncols)]
    cols[int(case['label_pos'])] = 'label'
    cands = pipeline_candidates(cols) if False else [x for x in itertools.combinations_with_replacement(cols, 2) if 'label' in x]
    rec.cls('task:batches=%d' % nb, 'task:tail-used' if int(case['t']) > 1024 else 'task:no-tail')
    tmp = tempfile.mkdtemp(prefix='c07-')
    old = os.getcwd()
    orig_pool, orig_sample, orig_mrg = tr.Pool, cr.prior_combinations_sample, cr.mixed_rank_graph
    selections = []
    evaluated = []

    def spy(combinations, args):
        got = orig_sample(combinations, args)
        selections.append(list(got))
        return got

    def spy_mrg(*a, **k):
        res = orig_mrg(*a, **k)
        evaluated.append({tuple(sorted((x, y))) for x, y, _ in res.triplet_scores})
        return res
    try:
        os.chdir(tmp)
        os.makedirs('data')
        with open('data/data.csv', 'w', newline='') as fh:
            w = csv.writer(fh, lineterminator='\n')
            w.writerow(cols)
            for i in range(nrows):
                w.writerow([str((i * (j + 2)) % 3) for j in range(ncols)])
        noise = bool(case.get('noise'))
        args = stubs.make_args(task='ranking', heuristic='MI-numba-randomized' if noise else 'Constant', minibatch_size=m, subsampling=1,
                               data_path=os.path.join(tmp, 'data'),
                               data_source='csv-raw', output_folder=os.path.join(tmp, 'out'), target_ranking_only='True',
                               combination_number_upper_bound=int(case['cap']), include_cardinality_in_feature_names='False',
                               include_noise_baseline_features='True' if noise else 'False')
        if noise:
            rec.cls('task:noise-baseline-columns')
        tr.Pool = lambda n=None: stubs.InlinePool()
        cr.prior_combinations_sample = spy
        cr.mixed_rank_graph = spy_mrg
        stubs.reset_globals()
        try:
            tr.outrank_task_conduct_ranking(args)
        except SystemExit:
            pass
        path = os.path.join(tmp, 'out', 'combination_estimation_counts.json')
        reported = json.load(open(path)) if os.path.exists(path) else None
    finally:
        tr.Pool, cr.prior_combinations_sample, cr.mixed_rank_graph = orig_pool, orig_sample, orig_mrg
        os.chdir(old)
        shutil.rmtree(tmp, ignore_errors=True)
    if len(selections) != nb:
        # how many batches a file yields is C08's statement; the clause below needs the selections of every processed batch only
        rec.cls('task:batch-count-differs-from-model')
    for bi, (sel, ev) in enumerate(zip(selections, evaluated)):
        if len(ev) > int(case['cap']) or ev != {tuple(sorted(g)) for g in sel}:
            raise Violation(f'batch {bi + 1}: {len(ev)} distinct pairs were evaluated, the sampler selected {len(sel)} under cap {case["cap"]}; '
                            f'evaluated but not selected: {sorted(ev - {tuple(sorted(g)) for g in sel})[:4]}', kind='C07/size')
    if case.get('noise'):
        cands = sorted({g for sel in selections for g in sel} | set(cands))      # the CONTROL-* pairs are candidates too
    model = Counter(g for sel in selections for g in sel)
    if nb == 0 and not selections:
        return
    if reported is None:
        raise Violation(f'{len(selections)} batches were sampled but no combination_estimation_counts.json was written', kind='C07/counter')
    for c in set(cands) | set(model):
        if int(reported.get(str(c), 0)) != model[c]:
            raise Violation(f'reported count of {c} is {reported.get(str(c), 0)}, it was selected in {model[c]} of the '
                            f'{len(selections)} sampled batches (k={case["k"]} full batches of {m} rows, tail {case["t"]}, cap {case["cap"]}); '
                            f'reported={reported}', kind='C07/counter')
    extra = set(reported) - {str(c) for c in cands}
    if case.get('noise'):
        extra = {e for e in extra if 'CONTROL-' not in e}      # control pairs that were never selected are listed with count 0
    if extra:
        raise Violation(f'reported counts hold foreign keys {sorted(extra)[:3]}', kind='C07/counter')
    if case.get('noise') and reported:
        import ast
        cands = sorted(set(cands) | {ast.literal_eval(k) for k in reported if 'CONTROL-' in k})
    counts = [model[c] for c in cands]
    if selections and max(counts) - min(counts) > 1:
        raise Violation(f'evaluation counts differ by more than one after {len(selections)} batches: {sorted(counts)}', kind='C07/fairness')


def pipeline_candidates(cols):
    return [x for x in itertools.combinations_with_replacement(cols, 2) if 'label' in x]


def check_history(cands, steps, cols=None, h3mr=False, ncpus=1, rounds=0):
    """Interpret the history against the implementation and the model. Returns (#batches, flags)."""
    stubs.reset_globals()
    model = Counter()
    if rounds:
        for c in cands:
            model[c] = int(rounds)
            cr.GLOBAL_PRIOR_COMB_COUNTS[c] = int(rounds)
    df = None
    df_nan = None
    if cols is not None:
        df = pd.DataFrame({c: ['0', '1', '0'] for c in cols})
        df_nan = pd.DataFrame({c: (['5', '5', '5', '5'] if i % 3 == 0 and c != 'label' else ['0', '1', '0', str(i % 2)])
                               for i, c in enumerate(cols)})
    candset = set(cands)
    for si, (kind, cap) in enumerate(steps):
        before = {c: model[c] for c in cands}
        args = stubs.make_args(heuristic='MI-numba-3mr' if h3mr else 'Constant', combination_number_upper_bound=int(cap),
                               target_ranking_only='True')
        if kind == 'd':
            got = cr.prior_combinations_sample(list(cands), args)
        elif h3mr:
            # the owned pool reports a worker count like the real one (--num_threads): every selected combination is still scored
            out = cr.mixed_rank_graph(df, args, stubs.InlinePool(ncpus=int(ncpus)), stubs.PBar()).triplet_scores
            if len(out) % 2:
                raise Violation(f'batch {si + 1}: scoring heuristic returned an odd number of rows ({len(out)})', kind='C07/size')
            got = []
            for a, b, _ in out[::1]:
                g = (a, b) if (a, b) in candset else (b, a)
                got.append(g)
            # both orientations of every evaluated pair are listed: each evaluated candidate appears exactly twice
            cnt = Counter(got)
            if any(v != 2 for v in cnt.values()):
                raise Violation(f'batch {si + 1} (cap {cap}, 3MR pipeline): candidates evaluated more than once in one batch: '
                                f'{[(k_, v // 2) for k_, v in cnt.items() if v != 2][:4]}', kind='C07/distinct')
            got = list(cnt)
        elif kind == 'pn':
            # a scoring heuristic that yields NaN for some pairs (Pearson on a column that is constant in the batch): an
            # evaluation with an undefined score is still an evaluation
            nargs = stubs.make_args(heuristic='correlation-Pearson', combination_number_upper_bound=int(cap),
                                    target_ranking_only='True')
            import warnings
            with warnings.catch_warnings():
                warnings.simplefilter('ignore')
                out = cr.mixed_rank_graph(df_nan, nargs, stubs.InlinePool(), stubs.PBar()).triplet_scores
            got = list(dict.fromkeys((a, b) if (a, b) in candset else (b, a) for a, b, _ in out))
        else:
            out = cr.mixed_rank_graph(df, args, stubs.InlinePool(), stubs.PBar()).triplet_scores
            got = [(a, b) for a, b, _ in out]
        where = f'batch {si + 1} (cap {cap}, {"direct" if kind == "d" else "pipeline" if kind == "p" else "pipeline, Pearson with NaN scores"})'
        if len(got) != min(cap, len(cands)):
            raise Violation(f'{where}: returned {len(got)} combinations, expected min(cap, len)={min(cap, len(cands))}', kind='C07/size')
        if len(set(got)) != len(got):
            raise Violation(f'{where}: returned combinations are not distinct: {got}', kind='C07/distinct')
        foreign = [g for g in got if g not in candset]
        if foreign:
            raise Violation(f'{where}: returned non-candidates {foreign[:3]}', kind='C07/foreign')
        chosen = set(got)
        if chosen and chosen != candset:
            mx_in = max(before[g] for g in chosen)
            mn_out = min(before[c] for c in cands if c not in chosen)
            if mx_in > mn_out:
                raise Violation(f'{where}: selected a candidate evaluated {mx_in}x while one evaluated {mn_out}x was left out '
                                f'(counts before: {sorted(before.values())})', kind='C07/least-evaluated')
        for g in got:
            model[g] += 1
        counts = [model[c] for c in cands]
        if max(counts) - min(counts) > 1:
            raise Violation(f'{where}: evaluation counts differ by more than one: {sorted(counts)}', kind='C07/fairness')
        impl = dict(cr.GLOBAL_PRIOR_COMB_COUNTS)
        extra = set(impl) - candset
        if extra:
            raise Violation(f'{where}: counter holds foreign keys {sorted(map(str, extra))[:3]}', kind='C07/counter')
        for c in cands:
            if impl.get(c, 0) != model[c]:
                raise Violation(f'{where}: reported count of {c} is {impl.get(c, 0)}, selected in {model[c]} batches', kind='C07/counter')


def check_multi(lists, steps, crowd=0):
    stubs.reset_globals()
    models = [Counter() for _ in lists]
    for si, (li, cap) in enumerate(steps):
        if crowd and si == len(steps) // 2:
            for i in range(int(crowd)):
                cr.GLOBAL_PRIOR_COMB_COUNTS[('bulk', i)] = 1       # a huge other list was sampled in between (its combinations are tracked too)
        cands = lists[li]
        model = models[li]
        before = {c: model[c] for c in cands}
        args = stubs.make_args(heuristic='Constant', combination_number_upper_bound=int(cap))
        got = cr.prior_combinations_sample(list(cands), args)
        where = f'batch {si + 1} (list {li} of {len(lists)}, cap {cap})'
        if len(got) != min(cap, len(cands)) or len(set(got)) != len(got) or any(g not in before for g in got):
            raise Violation(f'{where}: returned {len(got)} combinations {got[:4]}, expected min(cap, len)={min(cap, len(cands))} '
                            f'distinct candidates of that list', kind='C07/size')
        chosen = set(got)
        if chosen != set(cands):
            mx_in = max(before[g] for g in chosen)
            mn_out = min(before[c] for c in cands if c not in chosen)
            if mx_in > mn_out:
                raise Violation(f'{where}: selected a candidate evaluated {mx_in}x while one evaluated {mn_out}x was left out '
                                f'(counts of this list before: {sorted(before.values())}; the sampler also serves '
                                f'{len(lists) - 1} other candidate list(s))', kind='C07/least-evaluated')
        for g in got:
            model[g] += 1
        counts = [model[c] for c in cands]
        if max(counts) - min(counts) > 1:
            raise Violation(f'{where}: evaluation counts of one stable list differ by more than one: {sorted(counts)}',
                            kind='C07/fairness')
        impl = cr.GLOBAL_PRIOR_COMB_COUNTS
        for mi, (cl, mdl) in enumerate(zip(lists, models)):
            for c in cl:
                if impl.get(c, 0) != mdl[c]:
                    raise Violation(f'{where}: reported count of {c} is {impl.get(c, 0)}, selected in {mdl[c]} batches',
                                    kind='C07/counter')


class RecordingPool(stubs.InlinePool):
    """Owned pool that records the submitted combinations and returns a constant score (C07 is about WHICH combinations are
    evaluated and counted, not about their scores; surrogate scorers would cost seconds per batch)."""

    def __init__(self):
        super().__init__()
        self.submitted = []

    def amap(self, f, xs):
        xs = list(xs)
        if not all(isinstance(x, tuple) and len(x) == 2 for x in xs):
            raise PoolProtocolChanged()       # tasks are no longer single combinations: this stub cannot stand in for the scorer
        self.submitted.append(xs)
        return stubs._Result([(x[0], x[1], 0.5) for x in xs])


class PoolProtocolChanged(Exception):
    pass


def check_prior(case):
    import json
    import os
    import tempfile
    cols = case['cols']
    ref = list(case['ref'])
    fd, path = tempfile.mkstemp(prefix='c07-ref-', suffix='.json')
    with os.fdopen(fd, 'w') as fh:
        json.dump({'desc': {'features': ref, 'fields': []}}, fh)
    try:
        stubs.reset_globals()
        df = pd.DataFrame({c: ['0', '1', '0', '1'] for c in cols})
        cands = [x for x in pipeline_candidates(cols) if x[0] not in ref and x[1] not in ref]
        candset = set(cands)
        model = Counter()
        for si, (_, cap) in enumerate(case['steps']):
            before = {c: model[c] for c in cands}
            args = stubs.make_args(heuristic='surrogate-SGD', reference_model_JSON=path, combination_number_upper_bound=int(cap),
                                   target_ranking_only='True')
            pool = RecordingPool()
            out = cr.mixed_rank_graph(df, args, pool, stubs.PBar()).triplet_scores
            got = pool.submitted[0] if pool.submitted else []
            where = f'batch {si + 1} (cap {cap}, prior heuristic, reference features {ref})'
            if any(g not in candset for g in got):
                raise Violation(f'{where}: evaluated non-candidates {[g for g in got if g not in candset][:3]}', kind='C07/foreign')
            if len(got) != min(cap, len(cands)) or len(set(got)) != len(got):
                raise Violation(f'{where}: {len(got)} combinations evaluated, expected min(cap, #candidates)={min(cap, len(cands))} '
                                f'distinct ones', kind='C07/size')
            chosen = set(got)
            if chosen != candset and chosen:
                mx_in = max(before[g] for g in chosen)
                mn_out = min(before[c] for c in cands if c not in chosen)
                if mx_in > mn_out:
                    raise Violation(f'{where}: selected a candidate evaluated {mx_in}x while one evaluated {mn_out}x was left out',
                                    kind='C07/least-evaluated')
            for g in got:
                model[g] += 1
            impl = dict(cr.GLOBAL_PRIOR_COMB_COUNTS)
            for c, v in impl.items():
                if v != model.get(c, 0):
                    raise Violation(f'{where}: reported count of {c} is {v}, it was evaluated in {model.get(c, 0)} batches',
                                    kind='C07/counter')
            if cands:
                counts = [model[c] for c in cands]
                if max(counts) - min(counts) > 1:
                    raise Violation(f'{where}: evaluation counts differ by more than one: {sorted(counts)}', kind='C07/fairness')
    finally:
        os.unlink(path)


def check_overlap(case):
    import itertools as it
    feats = case['feats']
    lists = [list(it.combinations(feats, 2)), list(it.combinations_with_replacement(feats, 2))]
    stubs.reset_globals()
    model = Counter()
    for si, (li, cap) in enumerate(case['steps']):
        cands = lists[int(li)]
        before = {c: model[c] for c in cands}
        args = stubs.make_args(heuristic='Constant', combination_number_upper_bound=int(cap))
        got = cr.prior_combinations_sample(list(cands), args)
        where = f'batch {si + 1} ({"construction" if int(li) == 0 else "ranking"} list of {len(cands)}, cap {cap})'
        if len(got) != min(cap, len(cands)) or len(set(got)) != len(got) or any(g not in before for g in got):
            raise Violation(f'{where}: returned {len(got)} combinations, expected min(cap, len) distinct candidates', kind='C07/size')
        chosen = set(got)
        if chosen != set(cands):
            mx_in = max(before[g] for g in chosen)
            mn_out = min(before[c] for c in cands if c not in chosen)
            if mx_in > mn_out:
                worst = max(chosen, key=lambda g: before[g])
                least = min((c for c in cands if c not in chosen), key=lambda c: before[c])
                raise Violation(f'{where}: selected {worst} (evaluated {mx_in}x) although {least} was evaluated only {mn_out}x',
                                kind='C07/least-evaluated')
        for g in got:
            model[g] += 1
        impl = dict(cr.GLOBAL_PRIOR_COMB_COUNTS)
        for c in lists[1]:
            if impl.get(c, 0) != model[c]:
                raise Violation(f'{where}: reported count of {c} is {impl.get(c, 0)}, selected in {model[c]} batches', kind='C07/counter')


def check_construction(case):
    import itertools as it
    k, order = int(case['k']), int(case['order'])
    feats = [f'f{i}' for i in range(k)]
    df = pd.DataFrame({**{f: ['a', 'b', 'a', 'c'] for f in feats}, 'label': ['0', '1', '0', '1']})
    cands = list(it.combinations(feats, order))
    stubs.reset_globals()
    model = Counter()
    for si, (_, cap) in enumerate(case['steps']):
        before = {c: model[c] for c in cands}
        args = stubs.make_args(heuristic='MI-numba-randomized', interaction_order=order, combination_number_upper_bound=int(cap))
        out = cr.compute_combined_features(df, args, stubs.PBar())
        built = [tuple(str(c).split(' AND ')) for c in out.columns[df.shape[1]:]]
        where = f'batch {si + 1} (feature construction, order {order}, {len(cands)} candidates, cap {cap})'
        if len(built) != min(cap, len(cands)) or len(set(built)) != len(built) or any(b not in before for b in built):
            raise Violation(f'{where}: {len(built)} interaction features built ({built[:3]}...), expected min(cap, #candidates) distinct '
                            f'candidates', kind='C07/size')
        chosen = set(built)
        if chosen != set(cands):
            mx_in = max(before[g] for g in chosen)
            mn_out = min(before[c] for c in cands if c not in chosen)
            if mx_in > mn_out:
                raise Violation(f'{where}: built a combination already built {mx_in}x while one built {mn_out}x was left out '
                                f'(counts before: {sorted(before.values())})', kind='C07/least-evaluated')
        for g in built:
            model[g] += 1
        counts = [model[c] for c in cands]
        if max(counts) - min(counts) > 1:
            raise Violation(f'{where}: construction counts differ by more than one: {sorted(counts)}', kind='C07/fairness')
        impl = dict(cr.GLOBAL_PRIOR_COMB_COUNTS)
        for c in cands:
            if impl.get(c, 0) != model[c]:
                raise Violation(f'{where}: reported count of {c} is {impl.get(c, 0)}, it was selected in {model[c]} batches',
                                kind='C07/counter')


def oracle(case, rec):
    if case['mode'] == 'overlap':
        rec.cls('overlapping-lists')
        rec.nt(len(case['steps']) >= 3 and len({li for li, _ in case['steps']}) == 2, key=case)
        check_overlap(case)
        return
    if case['mode'] == 'construction':
        rec.cls('construction-call-site')
        rec.nt(len(case['steps']) >= 3, key=case)
        check_construction(case)
        return
    if case['mode'] == 'multi':
        lists = [[tuple(c) for c in cl] for cl in case['lists']]
        steps = [(int(li), int(cap)) for li, cap in case['steps']]
        used = {li for li, _ in steps}
        rec.nt(len(used) >= 2 and len(steps) >= 3 and any(cap < len(lists[li]) for li, cap in steps), key=case)
        rec.cls('multi-list')
        if case.get('crowd'):
            rec.cls('counter-tracks>10^6-combinations')
        try:
            check_multi(lists, steps, crowd=int(case.get('crowd') or 0))
        finally:
            if case.get('crowd'):
                stubs.reset_globals()
        return
    if case['mode'] == 'task':
        rec.nt(int(case['k']) + (int(case['t']) > 1024) >= 2 and int(case['cap']) < int(case['ncols']), key=case)
        check_task(case, rec)
        return
    if case['mode'] == 'pipeline3mr':
        cols = case['cols']
        cands = candidates_3mr(cols)
        steps = [(k, int(c)) for k, c in case['steps']]
        rec.cls('pipeline-3mr', 'has-relation-columns' if any(' AND_REL ' in c for c in cols) else 'no-relation-columns')
        rec.nt(len(steps) >= 3 and any(c < len(cands) for _, c in steps), key=case)
        check_history(cands, steps, cols, h3mr=True, ncpus=int(case.get('ncpus', 1)))
        return
    if case['mode'] == 'prior':
        rec.cls('prior-heuristic')
        rec.nt(len(case['steps']) >= 3 and len(set(c for _, c in case['steps'])) >= 2, key=case)
        try:
            check_prior(case)
        except PoolProtocolChanged:
            rec.cls('excluded:prior-history-pool-protocol-changed')     # the other history modes use the real scoring functions
        return
    if case['mode'] == 'direct':
        cands = ([tuple(c) for c in case['cands']] if 'cands' in case
                 else [(f'k{i}', 'label') for i in range(int(case['cands_gen']))])
        if 'cands_gen' in case:
            rec.cls('list>10^4')
        cols = None
    else:
        cols = case['cols']
        cands = pipeline_candidates(cols)
    steps = [(k, int(c)) for k, c in case['steps']]
    caps = [c for _, c in steps]
    rec.nt(len(steps) >= 3 and any(c < len(cands) for c in caps) and len(set(caps)) >= 2, key=case)
    rec.cls(case['mode'], 'has-cap>len' if any(c > len(cands) for c in caps) else 'caps<=len')
    if any(k in ('p', 'pn') for k, _ in steps):
        rec.cls('uses-mixed_rank_graph')
    if any(k == 'pn' for k, _ in steps):
        rec.cls('heuristic-with-nan-scores')
    if case.get('rounds'):
        rec.cls('fast-forwarded-by-%s-rounds' % ('<2^16' if case['rounds'] < 2**16 - 2 else '~2^16' if case['rounds'] <= 2**16 else '~2^31'))
    if any(c == 0 for c in caps):
        rec.cls('has-cap-0')
    check_history(cands, steps, cols, rounds=int(case.get('rounds') or 0))


KINDS = ['C07/history', 'C07/task', 'C07/crowded-counter', 'C07/exhaustive', 'C07/size', 'C07/distinct', 'C07/foreign', 'C07/least-evaluated', 'C07/fairness', 'C07/counter']
ORACLES = {k: oracle for k in KINDS}


def _exhaustive(shard):
    n = shard + 1
    cands = [(f'k{i}', 'label') for i in range(n)]
    evals = nt = 0
    for length in range(1, 6):
        for caps in itertools.product(range(1, n + 2), repeat=length):
            steps = [('d', c) for c in caps]
            try:
                check_history(cands, steps)
            except Violation as v:
                return evals, nt, {'mode': 'direct', 'cands': [list(c) for c in cands], 'steps': [['d', c] for c in caps]}, str(v)
            evals += 1
            if length >= 3 and any(c < n for c in caps) and len(set(caps)) >= 2:
                nt += 1
    return evals, nt, None, None


def run(ctx):
    res = run_sharded(_exhaustive, 4)
    tot = totnt = 0
    for evals, nt, fail, detail in res:
        tot += evals
        totnt += nt
        if fail is not None:
            r = ctx.run_oracle('C07/exhaustive', oracle, fail, Stats())
            ctx.report(r[0] if r else 'C07/exhaustive', fail, r[1] if r else detail)
    ctx.stats.evaluations += tot
    ctx.stats.nontrivial_count_only += totnt
    ctx.stats.per_kind['C07/exhaustive'] = {'evaluations': tot, 'nontrivial': totnt}
    ctx.extra['exhaustive_scope'] = f'all cap sequences of length <=5 (caps 1..len+1) over 1-4 candidates: {tot} histories'
    clauses = [
        Clause('C07/history', lambda: st.one_of(direct_history(), direct_history(), pipeline_history(), pipeline_history(), multi_history(),
                                                multi_history(), prior_history(), large_history(), overlap_history(), construction_history(),
                                                pipeline3mr_history()), oracle, quick=900, thorough=180000,
               quick_shards=6),
        Clause('C07/task', task_history, oracle, quick=24, thorough=1200, quick_shards=8, thorough_shards=16),
        Clause('C07/crowded-counter', crowded_history, oracle, quick=2, thorough=32, quick_shards=2, thorough_shards=8),
    ]
    drive(ctx, clauses)
