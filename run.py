#!/venv/bin/python
"""Entry point: run.py <ID> [--tier quick|thorough] [--replay FILE]

exit 0  property held on everything explored (KNOWN-FINDING lines may be printed)
exit 1  violation found: a line ``VIOLATION property=<id> replay=<path>`` is printed
exit 2  harness error (never a VIOLATION)
"""
from __future__ import annotations

import argparse
import importlib
import json
import os
import sys
import traceback

if os.environ.get('PYTHONHASHSEED') != '0':
    # the hash seed must be fixed before interpreter start
    os.environ['PYTHONHASHSEED'] = '0'
    os.execv(sys.executable, [sys.executable] + sys.argv)

sys.path.insert(0, os.path.dirname(os.path.abspath(__file__)))
from vlib import harness  # noqa: E402


def main():
    ap = argparse.ArgumentParser()
    ap.add_argument('prop')
    ap.add_argument('--tier', default=os.environ.get('VERIF_TIER', 'quick'), choices=['quick', 'thorough'])
    ap.add_argument('--replay', default=None)
    args = ap.parse_args()
    prop = args.prop.upper()
    harness.setup_environment()
    import logging
    logging.disable(logging.CRITICAL)
    import warnings
    warnings.filterwarnings('ignore')
    os.chdir(harness.VERIF_DIR)
    try:
        harness.assert_repo_import()
        mod = importlib.import_module(f'checks.{prop.lower()}')
        ctx = harness.Ctx(prop, args.tier)
        ctx.rule = getattr(mod, 'RULE', '')
        ctx.assumptions = list(getattr(mod, 'ASSUMPTIONS', []))
        if args.replay:
            with open(args.replay) as fh:
                payload = json.load(fh)
            kind = payload['kind']
            base = kind[:-len('/exception')] if kind.endswith('/exception') else kind
            oracle = mod.ORACLES[base]
            res = ctx.run_oracle(base, oracle, payload['case'])
            if res is None:
                print(f'replay: property {prop} holds on {args.replay}')
                return 0
            print(f'--- replay kind={res[0]}\n    detail={res[1][:3000]}')
            print(f'VIOLATION property={prop} replay={os.path.abspath(args.replay)}')
            return 1
        mod.run(ctx)
        ev = ctx.write_evidence()
        cov = ev['coverage']
        print(f"{prop} tier={args.tier} seed={ctx.seed} evaluations={cov['evaluations']} "
              f"distinct_nontrivial={cov['distinct_nontrivial']} violations={len(ctx.violations)} "
              f"wall_s={ev['wall_s']}", flush=True)
        if ctx.violations:
            return 1
        if cov['distinct_nontrivial'] < 2:
            print('harness: generator degenerate (fewer than 2 distinct non-trivial cases)', file=sys.stderr)
            return 2
        return 0
    except harness.HarnessError as e:
        print(f'HARNESS-ERROR {prop}: {e}', file=sys.stderr, flush=True)
        return 2
    except Exception:  # noqa: BLE001
        print(f'HARNESS-ERROR {prop}:\n' + traceback.format_exc(), file=sys.stderr, flush=True)
        return 2


if __name__ == '__main__':
    sys.exit(main())
