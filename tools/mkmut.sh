#!/bin/bash
# usage: mkmut.sh <name> <file> <sed-expr>   -> /verif/mutants/<name>.diff  (scratch clone in /tmp/mk/r)
set -e
if [ ! -d /tmp/mk/r/.git ]; then mkdir -p /tmp/mk; rm -rf /tmp/mk/r; git clone -q /repo /tmp/mk/r; fi
cd /tmp/mk/r; git fetch -q origin; git reset -q --hard origin/HEAD 2>/dev/null || git reset -q --hard origin/master
sed -i "$3" "$2"
git diff -- "$2" > /verif/mutants/$1.diff
git checkout -q -- "$2"
n=$(grep -c '^[-+][^-+]' /verif/mutants/$1.diff || true)
echo "$1: $n changed lines"
[ "$n" -gt 0 ]
