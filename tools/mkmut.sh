#!/bin/bash
# usage: mkmut.sh <name> <file> <sed-expr>   -> /verif/mutants/<name>.diff   (private scratch clone, removed afterwards)
set -e
T=$(mktemp -d /tmp/mkmut-XXXXXX)
trap 'rm -rf "$T"' EXIT
git clone -q /repo "$T/r"
cd "$T/r"
sed -i "$3" "$2"
git diff -- "$2" > /verif/mutants/$1.diff
n=$(grep -c '^[-+][^-+]' /verif/mutants/$1.diff || true)
echo "$1: $n changed lines"
[ "$n" -gt 0 ]
