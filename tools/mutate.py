#!/venv/bin/python
"""Sensitivity driver: apply one diff to a scratch copy of /repo and run a property's check on it.

usage: tools/mutate.py <patch.diff> <ID> [--tier quick] [--keep]
Prints: MUTANT <patch> <ID> exit=<code> wall=<s>   (exit 1 = detected)
The scratch copy lives under /tmp and is always removed; evidence/replays of the run go to a
temporary directory (VERIF_OUT), never to /verif/evidence.
"""
import argparse
import os
import shutil
import subprocess
import sys
import tempfile
import time

VERIF = os.path.dirname(os.path.dirname(os.path.abspath(__file__)))


def main():
    ap = argparse.ArgumentParser()
    ap.add_argument('patch')
    ap.add_argument('props', nargs='+')
    ap.add_argument('--tier', default='quick')
    ap.add_argument('--repo', default='/repo')
    ap.add_argument('--show', action='store_true')
    a = ap.parse_args()
    scratch = tempfile.mkdtemp(prefix='vmut-', dir='/tmp')
    out = tempfile.mkdtemp(prefix='vmut-out-', dir='/tmp')
    rc_all = 0
    try:
        dst = os.path.join(scratch, 'repo')
        shutil.copytree(a.repo, dst, ignore=shutil.ignore_patterns('.git', '__pycache__', 'docs', '*.egg-info'))
        r = subprocess.run(['patch', '-p1', '--no-backup-if-mismatch', '-i', os.path.abspath(a.patch)], cwd=dst,
                           capture_output=True, text=True)
        if r.returncode != 0:
            print(f'MUTANT {a.patch} PATCH-FAILED\n{r.stdout}{r.stderr}')
            return 3
        for prop in a.props:
            env = dict(os.environ, VERIF_REPO=dst, VERIF_OUT=out,
                       NUMBA_CACHE_DIR=os.path.join(scratch, 'numba'))
            t0 = time.time()
            p = subprocess.run([sys.executable, os.path.join(VERIF, 'run.py'), prop, '--tier', a.tier],
                               env=env, capture_output=True, text=True, cwd=VERIF)
            wall = time.time() - t0
            viol = [l for l in p.stdout.splitlines() if l.startswith('VIOLATION')]
            print(f'MUTANT {os.path.basename(a.patch)} {prop} exit={p.returncode} wall={wall:.1f}s violations={len(viol)}')
            if a.show or p.returncode not in (0, 1):
                print(p.stdout[-3000:])
                print(p.stderr[-3000:])
            elif p.returncode == 1:
                for l in p.stdout.splitlines():
                    if l.startswith('--- violation') or l.startswith('    detail='):
                        print('   ', l[:300])
            rc_all = max(rc_all, 0 if p.returncode == 1 else 1)
    finally:
        shutil.rmtree(scratch, ignore_errors=True)
        shutil.rmtree(out, ignore_errors=True)
    return rc_all


if __name__ == '__main__':
    sys.exit(main())
