#!/venv/bin/python
"""Print Appendix B of DESIGN.md (sensitivity results) from seeded/*/meta.json and a mutants_all log."""
import glob
import json
import os
import re
import sys

VERIF = os.path.dirname(os.path.dirname(os.path.abspath(__file__)))


def main():
    log = sys.argv[1] if len(sys.argv) > 1 else None
    print('## Appendix B — sensitivity: which checks catch which changes\n')
    print('### B.1 Independently seeded changes (`/verif/seeded/<name>/`: patch.diff, demo.py, notes.md, meta.json)\n')
    print('Each change was written by a fresh sub-agent that was given only the text of one property and its own git worktree of '
          '`/repo` (nothing from `/verif`), asked for a change that compiles, keeps the 58 repository tests green and needs something '
          'specific to manifest. Every change was confirmed by `tools/seedcheck.py` on scratch copies (patch applies, test-suite passes '
          'with it, the agent\'s demonstration fails with it and passes without it) and then the property\'s quick check was run with '
          '`VERIF_REPO=<patched copy>`. "first try" = the check as it stood when the change arrived.\n')
    print('| change | what it does | needs | detected by (violation kinds) | first try |')
    print('|---|---|---|---|---|')
    metas = [json.load(open(p)) for p in sorted(glob.glob(os.path.join(VERIF, 'seeded', '*', 'meta.json')))]
    miss_first = 0
    for m in metas:
        kinds = []
        for c, v in m.get('checks', {}).items():
            if v['exit'] == 1:
                kinds.append(c + ': ' + ', '.join(sorted(set(k.split('/', 1)[1] for k in v['violation_kinds']))))
        hist = m.get('history', '')
        first = 'caught' if hist.startswith('detected by the quick check') else 'MISSED - ' + hist.replace('missed at first: ', '')
        if first != 'caught':
            miss_first += 1
        print(f"| {m['name']} | {m.get('change', '').replace('|', chr(92) + '|')} | {m.get('needs', '').replace('|', chr(92) + '|')} | {'; '.join(kinds) or 'NOT DETECTED'} | {first} |")
    det = sum(1 for m in metas if m.get('detected_by'))
    own_quick = [m for m in metas if m['property'] in (m.get('detected_by') or [])
                 and m.get('checks', {}).get(m['property'], {}).get('tier', 'quick') == 'quick']
    others = [m['name'] + ' (' + ', '.join(f"{c} {v.get('tier', 'quick')} tier" for c, v in m.get('checks', {}).items() if v['exit'] == 1) + ')'
              for m in metas if m.get('detected_by') and m not in own_quick]
    print(f'\n{det} of {len(metas)} seeded changes are detected; {len(own_quick)} of them by the quick tier of the owning check'
          + (f' (the others: {"; ".join(others)})' if others else '') + f'. {miss_first} of the {len(metas)} were missed by the '
          f'check as first written and led to the strengthening described in the last column.\n')
    if log and os.path.exists(log):
        print('### B.2 Hand-made mutants (`/verif/mutants/*.diff`, driver `tools/mutate.py`, quick tier, VERIF_SEED=1)\n')
        rows = {}
        for line in open(log):
            mm = re.match(r'MUTANT (\S+)\.diff (C\d+) exit=(\d+) wall=([\d.]+)s', line)
            if mm:
                rows.setdefault(mm.group(2), []).append((mm.group(1), int(mm.group(3)), float(mm.group(4))))
        print('| property | mutants | detected (exit 1) | not detected |')
        print('|---|---|---|---|')
        for prop in sorted(rows):
            r = rows[prop]
            bad = [n for n, rc, _ in r if rc != 1]
            print(f'| {prop} | {len(r)} | {sum(1 for _, rc, _ in r if rc == 1)} | {", ".join(bad) or "-"} |')
        print('\nMutant names say what they change (`*revert_fix*` = reverse diff of a repair of Appendix D).')


if __name__ == '__main__':
    main()
