#!/bin/bash
# usage: tools/run_all.sh <quick|thorough> [ids...]   - runs the checks one after another, prints one summary line each
tier=${1:-quick}; shift
ids=${@:-C01 C02 C03 C04 C05 C06 C07 C08 C09 C10 C11 C12 C13 C14 C15 C16 C17 C18 C19 C20}
cd "$(dirname "$0")/.."
/venv/bin/python tools/setup.py >/dev/null 2>&1
for id in $ids; do
  start=$(date +%s)
  out=$(/venv/bin/python run.py $id --tier $tier 2>&1); rc=$?
  end=$(date +%s)
  echo "== $id tier=$tier exit=$rc wall=$((end-start))s :: $(echo "$out" | grep -E "^$id tier" | tail -1)"
  if [ $rc -ne 0 ]; then echo "$out" | grep -v "^    case=" | tail -15; fi
done
