#!/bin/bash
# usage: tools/seeds_all.sh [parallel=2]  - re-runs the owning property's quick check against every registered seeded change
par=${1:-2}
cd "$(dirname "$0")/.."
for d in seeded/C*/; do n=$(basename $d); p=${n%%-*}; extra=""; [ "$n" = "C13-5" ] && extra=" --checks C14"; echo "$p $d $n --skip-tests$extra"; done | \
  xargs -P $par -L 1 bash -c 'tools/seedcheck.py "$@" > /tmp/seedsall-$3.log 2>&1; echo "$3: $(grep -E "^->" /tmp/seedsall-$3.log)"' _
