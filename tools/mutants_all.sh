#!/bin/bash
# usage: tools/mutants_all.sh [parallel=3] [pattern]  - runs every mutants/<cXX>_*.diff against its property's quick check
par=${1:-3}; pat=${2:-c}
cd "$(dirname "$0")/.."
ls mutants/${pat}*.diff | while read f; do
  b=$(basename $f); id=$(echo ${b:0:3} | tr a-z A-Z)
  echo "$f $id"
done | xargs -P $par -L 1 bash -c 'tools/mutate.py $0 $1 2>&1 | grep -E "^MUTANT" '
