#!/bin/bash
# usage: tools/soak.sh <tier> <seed_from> <seed_to> [ids...]  - runs the checks for several VERIF_SEED values; prints every non-zero exit
tier=$1; a=$2; b=$3; shift 3
ids=${@:-C01 C02 C03 C04 C05 C06 C07 C08 C09 C10 C11 C12 C13 C14 C15 C16 C17 C18 C19 C20}
cd "$(dirname "$0")/.."
/venv/bin/python tools/setup.py >/dev/null 2>&1
for seed in $(seq $a $b); do
  for id in $ids; do
    out=$(VERIF_SEED=$seed VERIF_OUT=/tmp/soak-out-$$ /venv/bin/python run.py $id --tier $tier 2>&1); rc=$?
    if [ $rc -ne 0 ]; then echo "!! seed=$seed $id exit=$rc"; echo "$out" | grep -v "^    case=" | tail -12; mkdir -p soak-replays; cp /tmp/soak-out-$$/replays/* soak-replays/ 2>/dev/null; else echo "ok seed=$seed $id $(echo "$out" | tail -1 | sed 's/.*evaluations/evaluations/')"; fi
  done
done
rm -rf /tmp/soak-out-$$
