#!/venv/bin/python
"""Regenerate MANIFEST.json from the table below (keeps it schema-valid and consistent)."""
import json
import os

VERIF = os.path.dirname(os.path.dirname(os.path.abspath(__file__)))
PY = '/venv/bin/python'

# id -> (technique, level text, level note, design ref)
CHECKS = {
    'C01': ('exhaustive small-scope enumeration + Hypothesis generated pairs vs reference model (textbook plug-in MI)',
            'Exploration: every ordered pair of set partitions of [n] (n<=6 quick, n<=8 thorough) is enumerated and compared with an '
            'independent plug-in MI; Hypothesis adds structured families up to n=10^6 and the algebraic corollaries (symmetry, '
            'non-negativity, constant side, entropy bound, self score). The estimator depends only on the joint partition, so the '
            'enumerated scope is complete for those n; beyond it the claim is sampled.',
            'Trusted: the float64 reference model in vlib/refmodels.py and the stated float32 tolerance.', 'DESIGN.md §3 C01'),
    'C02': ('Hypothesis metamorphic relation (injective relabeling) + reference model for the self-pair rule + pipeline-level renaming',
            'Exploration: generated pairs x relabelings x correction flag must score the same; a directed generator produces the equal-sum / '
            'equal-histogram non-identical class named in the quantifier and the corrected score is compared with the displaced-copy '
            'reference; string frames are renamed injectively and re-scored through mixed_rank_graph (category coding).',
            'Trusted: reference model, tolerance. Pairs where the self rule applies on one side of the relation only are excluded and counted.',
            'DESIGN.md §3 C02'),
    'C03': ('exhaustive small-scope enumeration + Hypothesis pairs vs reference model (literal displaced-copy definition); sampled planted-signal family',
            'Exploration: all ordered pairs of set partitions (n<=6 quick / n<=7 thorough) and generated families are compared with '
            'H(Y*|X)-H(Y|X) computed from the statement; corollaries (constant / identifier feature, self pair, heuristic-name flag) and the '
            'ranking corollary over generated seeds of the planted family.',
            'Trusted: reference model; the ranking corollary is statistical (sampled seeds).', 'DESIGN.md §3 C03'),
    'C04': ('Hypothesis cases evaluated in sacrificial worker interpreters (generated heap-poisoning histories, MALLOC_PERTURB_ bytes): '
            'termination + bitwise determinism + reference model + metamorphic (alter rows outside the sample)',
            'Exploration: each generated (pair, float32 ratio, flag, three heap histories) is evaluated in two persistent worker '
            'interpreters with different MALLOC_PERTURB_ bytes after the worker has left chosen bytes in freed chunks of the index '
            'buffer size classes; oracles: worker survives, identical float32 bit pattern across histories/processes, agreement with '
            'the sample-only model, bit-identical score after altering feature values outside the sampled rows.',
            'No sanitizer for JIT code: out-of-bounds reads are visible only via crashes, non-determinism or model disagreement. '
            'r is read as the float32 value the estimator receives (floor of the exact product).', 'DESIGN.md §3 C04'),
    'C05': ('Hypothesis string frames x documented heuristic names: differential against direct computation on harness-side codes',
            'Exploration: generated batches (empty strings, unicode, digit ids, cardinalities beyond int8/int16 codes, dependent columns) '
            'are scored through mixed_rank_graph with every documented non-surrogate heuristic name (scanned from the docs/scripts at run '
            'time) and every emitted triplet is compared with an independent evaluation of that heuristic on codes recomputed by the '
            'harness, with the label as conditioning side; a directed class reaches hash-aliasing code distances.',
            'Trusted: reference models; scipy pearsonr / sklearn AMI as the named heuristics. Surrogate heuristics out of scope.',
            'DESIGN.md §3 C05'),
    'C06': ('Hypothesis column sets x modes x heuristics x caps: validity predicate on the emitted triplets',
            'Exploration: generated column sets (1-40 names incl. unicode, spaces, relation-feature names, label anywhere) are scored '
            'through mixed_rank_graph; the triplet list must mention only batch columns, be closed under mirroring with identical '
            'scores (Constant: each pair once, 0.0), stay inside the requested pair set, respect the cap exactly, and contain every '
            'requested pair whenever the cap does not bind.',
            'Duplicated candidates and self pairs of relation features are tolerated (statement speaks of sets / is silent).',
            'DESIGN.md §3 C06'),
    'C07': ('model-based histories (Hypothesis program cases) + exhaustive short histories; invariants after every batch',
            'Exploration: generated batch histories with changing caps are replayed against prior_combinations_sample (directly and '
            'through mixed_rank_graph) and a Counter model; after every batch: size = min(cap, len), distinct, all candidates, '
            'least-evaluated-first, max-min <= 1, reported counts = model. All cap sequences of length <=5 over <=4 candidates are '
            'enumerated.', 'Tie order among equally counted candidates is not constrained.', 'DESIGN.md §3 C07'),
    'C08': ('Hypothesis constructive CSV generator around batch/tail boundaries: differential against a reference batch model + spies on batches and checkpoints',
            'Exploration: files are built so that the number of selected valid rows sits on every batch / tail boundary (incl. 1023..1026 '
            'around the 1024 tail rule) with malformed rows on and off the subsampling grid; the streaming loop is run in-process with an '
            'owned pool; rows entering every batch, the invalid-line count, the aggregated frame, the on-disk checkpoint at every batch '
            'boundary and pairwise_ranks.tsv of the in-process ranking task are compared with the reference model (median per ordered pair, '
            'ascending order).',
            'Per-batch scores of the model come from the implementation scorer applied to model batches (scoring is decided by C05). '
            'gzip / multi-file inputs not generated.', 'DESIGN.md §3 C08'),
    'C09': ('owned schedules (Hypothesis, in-process pools executing tasks in generated permutations / threads) + real pathos pools in fresh processes with seeded per-task delays + generated PYTHONHASHSEED reruns; oracle: equality of complete outputs',
            'Exploration: (1) generated frames/configurations/schedules - triplets under a pool that executes tasks in a generated '
            'permutation over 1-16 logical workers or real threads must equal the inline pool; (2) the real CLI with --num_threads in '
            '{1,2,4,8,16} while every scoring call in the forked workers is delayed by a seeded hash (completion orders and worker pids are '
            'logged and counted); (3) the same command under generated hash seeds chosen so that set iteration orders differ. '
            'pairwise_ranks.tsv rows must be identical across all runs of an input.',
            'Real interleavings are sampled, not enumerated; tie order inside the output file is not constrained.', 'DESIGN.md §3 C09'),
    'C17': ('exhaustive {0,1} score tables over <=4 features + Hypothesis dictionaries: validity predicate (greedy optimality under ties)',
            'Exploration: every {0,1} assignment of relevance / redundancy / relation over <=4 features (x strategies x alpha,beta) is '
            'enumerated and Hypothesis adds 1-30 features with ties, negatives, sparse symmetric-or-absent pair dictionaries; the output '
            'must be a permutation with ranks 1..n, start at maximal relevance, and at every position the chosen feature must maximise '
            'the recomputed importance (up to 1e-9 scale) - many outputs are valid under ties, none is prescribed.',
            'Pair dictionaries are symmetric-or-absent (as the statement is silent on lookup orientation). The pipeline clause on 3mr_ranks.tsv is not built.',
            'DESIGN.md §3 C17'),
    'C18': ('Hypothesis triplet tables with adversarial names written to pairwise_ranks.tsv: recomputation oracle on both summary files',
            'Exploration: generated tables (annotated/plain names, names containing AND, interaction names, duplicated orientations, '
            'label-label rows, distractors, negative scores/ties, heuristics with/without MI, orders 1-3) are summarised by the real task; '
            'feature_singles.tsv and feature_singles_aggregated.tsv are recomputed independently (median, descending order, min-max '
            'normalisation for MI names, per-constituent medians over " AND " features only).',
            'Names for which the name-(...) convention is inherently ambiguous and MI tables with max==min (0/0) are excluded and counted.',
            'DESIGN.md §3 C18'),
    'C19': ('Hypothesis parameter/structure generation by construction: domain / position / representation predicates + seed replay',
            'Exploration: generated (n_features, n_samples, cardinality, low, high, k, seed, ensure_rep, random_values) and structure '
            'descriptions mixing index / index-list entries with cardinalities, value lists and value/frequency pairs, sample counts '
            'straddling each domain size; predicates: shape and int32, per-feature value set inside the declared domain, structure '
            'features at their declared positions, ensure_rep => every value present when n >= |domain|, same arguments => same array; '
            'naive generator and the data_generator task (label is a function of the needle column, CSV shape).',
            'Inputs restricted to what the generators document/accept (e.g. >=31 features for the naive generator).', 'DESIGN.md §3 C19'),
    'C20': ('Hypothesis on generated data sets: per-operation predicates (correlation value, copies, self-description, quantile cuts, noise budgets, down-sampling)',
            'Exploration: separate clauses for generate_correlated (Pearson = r within 1e-6 for non-constant sources), duplicates, '
            'combinations, dataset_info programs, quantile labels (monotone step function, tie-free cumulative counts, float/list/ndarray '
            'distributions), categorical / missing noise (per-feature budget floor(p*n), own value set, input untouched) and class-balanced '
            'down-sampling (exactly n rows per class drawn from that class, n > min count raises).',
            'Classes with a single row are not generated for categorical noise (observed ValueError, outside the statement); k-means labels: shape/range only.',
            'DESIGN.md §3 C20'),
    'C10': ('Hypothesis frames over a collision-prone value pool: iff-partition equality + naming/count validity + metamorphic score equality with explicit tuples',
            'Exploration: generated frames whose cells are prefixes/suffixes of one another, empty strings, unicode variants and '
            'separator-like strings, orders 2-4 and caps; every appended column must be named by an order-k combination joined with " AND ", '
            'the number of appended columns is min(cap, C(k,order)), two rows share an interaction value iff they agree on every constituent, '
            'original columns are untouched, and scores through mixed_rank_graph equal those of an explicit injective tuple encoding.',
            '64-bit hash collisions are ignored (probability < 1e-12 per run). Pairs scored under the self-pair rule in one frame only are excluded.',
            'DESIGN.md §3 C10'),
    'C11': ('Hypothesis frames x flag subsets: invariants (prefix preservation, one value per row) + per-rule recomputation, on each constructor and on the frame captured by a spy at the scorer',
            'Exploration: generated string frames (multi-value cells with empty/repeated tokens and missing symbols, values containing '
            '"&"/"AND"/"-") go through each constructor directly and through compute_batch_ranking with generated flag subsets; the frame '
            'handed to mixed_rank_graph is captured; originals must be an unchanged prefix, every new column must have one value per row, '
            'MULTIEX / SUBFEATURE columns are recomputed from the stated rules (two-sided: name templates and indicators), CONTROL-target '
            'must replicate the label.',
            'Content of interaction / transformed columns is decided by C10 / C12. Non-default indexes are outside the callers contract.',
            'DESIGN.md §3 C11'),
    'C12': ('Hypothesis numeric-text columns x preset lists: reference functions derived from the transformer names + exact keep/drop rule (iff) + union of presets',
            'Exploration: generated columns (zero forms, tiny/huge, probabilities, every fw threshold +-ulp, quoted numbers, empties) with '
            'multiplicities straddling the 80% / 75% / single-value boundaries are transformed by the real class; every emitted column is '
            'compared (1e-9 relative, NaN/inf aware) with an independent pure-Python formula derived from the name (fw names parsed into '
            'kind/resolution/threshold; ten hand-written minimal/default formulas), a column is emitted iff the reference column passes the '
            'keep rule computed in exact integer arithmetic, and preset lists must select the union.',
            'Cases within one ulp of flipping the distinct-value structure are excluded and counted. Expected names come from the vault dictionaries.',
            'DESIGN.md §3 C12'),
    'C14': ('compact insertion histories (Hypothesis program cases) crossing 2^18 distinct values + element-level histories vs a set model',
            'Exploration: generated histories of fresh / replay / shuffle / probe segments over injective value families land cumulative '
            'distinct counts on 1..50, 2^18-2..2^18+2 and 2^18*{1.5,2,4,8}; oracles: exact size up to 2^18, within 2% up to 2^21, size '
            'unchanged by replay-only stretches, same size for re-ordered multisets in the exact range; small histories compare with a set after every add.',
            'The 2% bound is a statistical statement tested on sampled value families; only strings are fed (as the pipeline does).',
            'DESIGN.md §3 C14'),
    'C15': ('two model-based history checks (Hypothesis program cases): count-min sketch vs Counter, bounded counter vs Counter',
            'Exploration: generated update/query programs over all sketch shapes (depth 1-8, width 1..2^15), numpy seeds, int (full int64, '
            'congruent pairs) and string items and non-negative weights; after every update: true <= query <= total for every seen item, '
            'each row sums to the total, queries leave the matrix unchanged. Bounded counter: never over-counts, exact while fewer than '
            'bound distinct values were seen, never tracks more than bound values.',
            'Total weight kept below 2^31 (int32 matrix is code-imposed).', 'DESIGN.md §3 C15'),
    'C16': ('Hypothesis tables rendered per format: round trip through generic_line_parser + whole-line rejection through the streaming loop; atheris campaign in the thorough tier',
            'Exploration: generated tables of string cells (empties first/last/everywhere, delimiters, quotes, unicode whitespace, control '
            'characters) are rendered as CSV (csv.writer), tab-separated and VW lines with generated namespace maps and must parse back to '
            'exactly their fields / namespace columns (absent -> None, label = first token); wrong-arity lines must not have the header '
            'length and are absent from every batch of the streaming loop while neighbours keep their columns; parse_namespace returns the '
            'declared map and f32 set. Thorough adds a coverage-guided atheris campaign over the same oracles.',
            'Both readings of "without their two-character prefix" are accepted for multi-token namespaces. Cells with line breaks excluded by the quantifier.',
            'DESIGN.md §3 C16'),
    'C13': ('Hypothesis row sequences x compositions of the row count (+ every composition of short sequences) vs exact counters; split-independence metamorphic relation; in-process task runs over several batch sizes',
            'Exploration: generated row sequences are fed batch by batch (generated cut points and unsplit) through compute_coverage / '
            'compute_cardinalities / compute_value_counts and compared with exact recomputation (per-batch coverage, distinct non-empty '
            'values, value counts, rare pairs count <= threshold); every composition of sequences of <=9 rows is enumerated; the ranking '
            'and identify_rare_values tasks run in-process for several minibatch sizes dividing the row count and the name annotations, '
            'value_repetitions.json and rare_values.tsv are recomputed exactly.',
            'Cardinalities stay far below the sketch warm-up capacity (C14). Columns whose distinct count reaches --max_unique_hist_constraint are not asserted (bounded counter, C15).',
            'DESIGN.md §3 C13'),
}

NOT_YET = 'check not built yet in this commit (work in progress; planned in DESIGN.md §3)'


def main():
    props = [json.loads(l)['id'] for l in open(os.path.join(VERIF, 'properties.jsonl'))]
    checks = []
    na = []
    for pid in props:
        if pid in CHECKS and os.path.exists(os.path.join(VERIF, 'checks', pid.lower() + '.py')):
            tech, text, note, ref = CHECKS[pid]
            checks.append({
                'property_id': pid,
                'quick_cmd': f'{PY} run.py {pid} --tier quick',
                'thorough_cmd': f'{PY} run.py {pid} --tier thorough',
                'evidence_file': f'/verif/evidence/{pid}.json',
                'replay_cmd_template': f'{PY} run.py {pid} --replay {{path}}',
                'engine': 'pbt-runner',
                'level_claimed': {'category': 'exploration', 'text': text, 'design_ref': ref},
                'level_note': note,
                'technique': tech,
            })
        else:
            na.append({'property_id': pid, 'reason': NOT_YET})
    man = {
        'version': 1,
        'setup_cmd': f'{PY} tools/setup.py',
        'hooks': {
            'guard': 'OUTRANK_VERIF',
            'enable': 'no source hooks: checks import /repo (VERIF_REPO) directly and inject pools/args/spies from the harness; '
                      'OUTRANK_VERIF=1 is exported by the runner but no repository code reads it',
            'baseline_off_cmd': 'cd /repo && /venv/bin/python -m pytest -ra -q -p no:cacheprovider --timeout=900 --continue-on-collection-errors',
            'source_commits': [],
            'add_only': True,
        },
        'engines': [{
            'name': 'pbt-runner', 'path': '/verif/run.py',
            'serves_properties': [c['property_id'] for c in checks],
            'kind_free_text': 'Hypothesis (stateful + strategy based) / exhaustive small-scope enumeration / atheris, with explicit '
                              'oracles (reference models, round trips, metamorphic relations, validity predicates)',
        }],
        'checks': checks,
        'notes': 'All checks: cwd=/verif, env VERIF_SEED (default 1), VERIF_REPO (default /repo). exit 0 held / 1 VIOLATION / 2 harness error. '
                 'Known findings: /verif/KNOWN_FINDINGS.txt.',
        'not_applicable': na,
    }
    with open(os.path.join(VERIF, 'MANIFEST.json'), 'w') as fh:
        json.dump(man, fh, indent=1)
    print(f'{len(checks)} checks, {len(na)} not claimed')


if __name__ == '__main__':
    main()
