#!/venv/bin/python
"""Confirm and register a seeded change produced by an independent sub-agent.

usage: tools/seedcheck.py <PROP> <src_dir> <name> [--checks C01,C02] [--skip-tests] [--tier quick]

<src_dir> holds patch.diff, demo.py, notes.md.  Steps (all on scratch copies of /repo's HEAD under /tmp, removed afterwards):
  1. patch applies; package imports
  2. the repository's test-suite passes with the patch (same command as the baseline)
  3. demo.py fails with the patch and passes without it
  4. the property's quick check (plus --checks) is run against the patched copy (VERIF_REPO) -> detected / missed
The result is written to /verif/seeded/<name>/meta.json next to copies of the three files.
"""
import argparse
import json
import os
import re
import shutil
import subprocess
import sys
import tempfile
import time

VERIF = os.path.dirname(os.path.dirname(os.path.abspath(__file__)))
PY = '/venv/bin/python'


def sh(cmd, cwd=None, env=None, timeout=3600):
    p = subprocess.run(cmd, cwd=cwd, env=env, capture_output=True, text=True, timeout=timeout)
    return p.returncode, p.stdout, p.stderr


def make_copy(dst):
    p = subprocess.run(['git', '-C', '/repo', 'archive', '--format=tar', 'HEAD'], capture_output=True)
    os.makedirs(dst)
    subprocess.run(['tar', '-x', '-C', dst], input=p.stdout, check=True)


def main():
    ap = argparse.ArgumentParser()
    ap.add_argument('prop')
    ap.add_argument('src')
    ap.add_argument('name')
    ap.add_argument('--checks', default='')
    ap.add_argument('--skip-tests', action='store_true')
    ap.add_argument('--tier', default='quick')
    a = ap.parse_args()
    scratch = tempfile.mkdtemp(prefix='seedchk-', dir='/tmp')
    meta = {'property': a.prop, 'name': a.name, 'repo_head': sh(['git', '-C', '/repo', 'rev-parse', 'HEAD'])[1].strip(), 'ran': []}
    try:
        clean, mut = os.path.join(scratch, 'clean'), os.path.join(scratch, 'mut')
        make_copy(clean)
        make_copy(mut)
        patch = os.path.abspath(os.path.join(a.src, 'patch.diff'))
        rc, out, err = sh(['patch', '-p1', '--no-backup-if-mismatch', '-i', patch], cwd=mut)
        meta['patch_applies'] = rc == 0
        if rc != 0:
            print('PATCH FAILED', out, err)
            return finish(a, meta, 2)
        touched = re.findall(r'^\+\+\+ b/(\S+)', open(patch).read(), flags=re.M)
        meta['files_touched'] = touched

        def env_for(tree):
            return dict(os.environ, PYTHONPATH=tree, NUMBA_CACHE_DIR=os.path.join(scratch, 'numba-' + os.path.basename(tree)),
                        PYTHONHASHSEED='0')
        # demo with / without
        demo = os.path.abspath(os.path.join(a.src, 'demo.py'))
        src_text = open(demo, encoding='utf-8').read()
        for tree in (mut, clean):   # the agents' demos may hard-code their worktree path
            os.makedirs(os.path.join(tree, '_seed', 'x'), exist_ok=True)
            with open(os.path.join(tree, '_seed', 'x', 'demo.py'), 'w', encoding='utf-8') as fh:
                fh.write(re.sub(r'/tmp/seed\d*/C\d+', tree, src_text))
        rc_m, out_m, err_m = sh([PY, os.path.join('_seed', 'x', 'demo.py')], cwd=mut, env=env_for(mut), timeout=900)
        rc_c, out_c, err_c = sh([PY, os.path.join('_seed', 'x', 'demo.py')], cwd=clean, env=env_for(clean), timeout=900)
        meta['demo_with_change_rc'] = rc_m
        meta['demo_without_change_rc'] = rc_c
        meta['demo_with_change_tail'] = (out_m + err_m)[-600:]
        meta['ran'].append('demo.py on patched and unpatched scratch copies')
        print(f'demo: with change rc={rc_m}, without rc={rc_c}')
        # repo tests with the change
        if not a.skip_tests:
            t0 = time.time()
            rc_t, out_t, err_t = sh([PY, '-m', 'pytest', '-q', '-p', 'no:cacheprovider', '--timeout=900', 'tests'], cwd=mut,
                                    env=env_for(mut), timeout=3000)
            tail = (out_t.strip().splitlines() or [''])[-1]
            meta['tests_with_change'] = tail
            meta['tests_rc'] = rc_t
            meta['ran'].append('pytest tests (patched copy): ' + tail)
            print(f'tests with change: rc={rc_t} {tail} ({time.time() - t0:.0f}s)')
        # checks
        checks = [a.prop] + [c for c in a.checks.split(',') if c and c != a.prop]
        meta['checks'] = {}
        out_dir = os.path.join(scratch, 'out')
        for c in checks:
            env = dict(os.environ, VERIF_REPO=mut, VERIF_OUT=out_dir, NUMBA_CACHE_DIR=os.path.join(scratch, 'numba-check'))
            t0 = time.time()
            rc, out, err = sh([PY, os.path.join(VERIF, 'run.py'), c, '--tier', a.tier], cwd=VERIF, env=env, timeout=7200)
            kinds = re.findall(r'^--- violation kind=(\S+)', out, flags=re.M)
            details = re.findall(r'^    detail=(.*)$', out, flags=re.M)
            meta['checks'][c] = {'exit': rc, 'wall_s': round(time.time() - t0, 1), 'violation_kinds': kinds,
                                 'first_detail': details[0][:400] if details else None, 'tier': a.tier}
            meta['ran'].append(f'run.py {c} --tier {a.tier} with VERIF_REPO=<patched copy>: exit {rc}')
            print(f'check {c}: exit={rc} kinds={kinds} ({time.time() - t0:.0f}s)')
            if rc not in (0, 1):
                print(out[-1500:], err[-1500:])
        meta['detected_by'] = [c for c, v in meta['checks'].items() if v['exit'] == 1]
        return finish(a, meta, 0)
    finally:
        shutil.rmtree(scratch, ignore_errors=True)


def finish(a, meta, rc):
    dst = os.path.join(VERIF, 'seeded', a.name)
    os.makedirs(dst, exist_ok=True)
    for f in ('patch.diff', 'demo.py', 'notes.md'):
        if os.path.exists(os.path.join(a.src, f)) and os.path.abspath(os.path.join(a.src, f)) != os.path.abspath(os.path.join(dst, f)):
            shutil.copy(os.path.join(a.src, f), os.path.join(dst, f))
    old = {}
    mp = os.path.join(dst, 'meta.json')
    if os.path.exists(mp):
        try:
            old = json.load(open(mp))
        except Exception:  # noqa: BLE001
            old = {}
    for k in ('needs', 'kept', 'comment', 'change', 'history', 'round', 'source') + (('tests_with_change', 'tests_rc') if a.skip_tests else ()):
        if k in old and k not in meta:
            meta[k] = old[k]
    with open(mp, 'w') as fh:
        json.dump(meta, fh, indent=1)
    print(f'-> {mp}: detected_by={meta.get("detected_by")}')
    return rc


if __name__ == '__main__':
    sys.exit(main())
