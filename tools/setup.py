#!/venv/bin/python
"""setup_cmd: offline. Makes sure hypothesis (and, best effort, atheris) are importable and creates caches."""
import os
import subprocess
import sys

VERIF = os.path.dirname(os.path.dirname(os.path.abspath(__file__)))
WHEELS = '/opt/veriftools/wheels'
DEPS = os.path.join(VERIF, '.deps')


def have(mod):
    return subprocess.run([sys.executable, '-c', f'import sys; sys.path.append({DEPS!r}); import {mod}'],
                          capture_output=True).returncode == 0


def pip(pkg):
    return subprocess.run([sys.executable, '-m', 'pip', 'install', '--no-index', '--find-links', WHEELS,
                           '--target', DEPS, pkg], capture_output=True, text=True)


def main():
    os.makedirs(os.path.join(VERIF, '.cache', 'numba'), exist_ok=True)
    os.makedirs(os.path.join(VERIF, 'evidence'), exist_ok=True)
    os.makedirs(os.path.join(VERIF, 'replays'), exist_ok=True)
    if not have('hypothesis'):
        r = pip('hypothesis')
        if not have('hypothesis'):
            print(r.stdout[-2000:], r.stderr[-2000:])
            print('setup: hypothesis could not be installed')
            return 1
    if not have('atheris'):
        pip('atheris')
    print('setup: hypothesis ok; atheris', 'ok' if have('atheris') else 'unavailable (C16 fuzz campaign will be skipped)')
    return 0


if __name__ == '__main__':
    sys.exit(main())
