"""Sacrificial worker for C04: evaluates subsampled-estimator calls after applying a heap history.

Protocol: one JSON object per line on stdin -> one JSON object per line on stdout.
request  {"id": k, "calls": [{"Y": [...], "X": [...], "r": float, "c": bool, "heap": [[pattern, reps], ...]}, ...]}
response {"id": k, "bits": [uint32 bit pattern of the float32 score per call]}
A journal line "BEGIN <id>.<call>" is flushed to the journal file before every call so the parent can
attribute an abnormal termination to the exact call.
"""
from __future__ import annotations

import ctypes
import json
import os
import struct
import sys

REPO = os.environ.get('VERIF_REPO', '/repo')
sys.path.insert(0, REPO)

import numpy as np  # noqa: E402

from outrank.algorithms.feature_ranking import ranking_mi_numba as cut  # noqa: E402

libc = ctypes.CDLL(None)
libc.malloc.restype = ctypes.c_void_p
libc.malloc.argtypes = [ctypes.c_size_t]
libc.free.argtypes = [ctypes.c_void_p]


def pattern_values(name, m, n):
    """m float64 values a freed chunk should carry."""
    if name == 'rows':       # valid looking row numbers
        return np.arange(m, dtype=np.float64) % max(n, 1)
    if name == 'lastrow':
        return np.full(m, float(max(n - 1, 0)))
    if name == 'n':          # one past the end
        return np.full(m, float(n))
    if name == 'minus1':
        return np.full(m, -1.0)
    if name == 'big':
        return np.full(m, float(2**31))
    if name == 'nan':
        return np.full(m, np.nan)
    if name == 'huge':
        return np.full(m, 1e300)
    if name == 'far':        # index far outside any mapping
        return np.full(m, float(2**30 + 12345))
    if name == 'zero':
        return np.zeros(m)
    raise ValueError(name)


def poison(m, n, heap):
    """Leave chosen bytes in freed malloc chunks of the sizes the index buffer (m float64 + allocator
    header) can be served from: for every size class around 8*m, allocate, fill, free (LIFO reuse)."""
    if m <= 0:
        return
    for name, reps in heap:
        vals = pattern_values(name, m + 32, n)
        raw = vals.tobytes()
        ptrs = []
        for extra in range(0, 257, 16):
            size = 8 * m + extra
            for _ in range(max(1, min(int(reps), 4))):
                p = libc.malloc(size)
                if p:
                    ctypes.memmove(p, raw, min(size, len(raw)))
                    ptrs.append(p)
        for p in reversed(ptrs):
            libc.free(p)
        # numpy-level buffers too (numpy caches small blocks separately from malloc)
        bufs = [np.empty(m, dtype=np.float64) for _ in range(3)]
        for b in bufs:
            b[:] = vals[:m]
        del bufs


BUFFERS = {}


def main():
    journal = open(os.environ['C04_JOURNAL'], 'a') if os.environ.get('C04_JOURNAL') else None
    out = sys.stdout
    out.write(json.dumps({'imported': True}) + '\n')
    out.flush()
    # warm up (JIT) before answering
    cut.mutual_info_estimator_numba(np.array([0, 1, 0, 1], dtype=np.int32), np.array([0, 0, 1, 1], dtype=np.int32),
                                    np.float32(0.5), True)  # quota 1 x 2 values = buffer fully written
    out.write(json.dumps({'ready': True}) + '\n')
    out.flush()
    for line in sys.stdin:
        line = line.strip()
        if not line:
            continue
        req = json.loads(line)
        bits = []
        for ci, call in enumerate(req['calls']):
            Y = np.asarray(call['Y'], dtype=np.int32)
            X = np.asarray(call['X'], dtype=np.int32)
            if call.get('buf'):
                # the caller keeps ONE target buffer per name and refills it in place for every batch (same address, new contents)
                key = (call['buf'], len(X))
                if key not in BUFFERS:
                    BUFFERS[key] = np.empty(len(X), dtype=np.int32)
                BUFFERS[key][:] = X
                X = BUFFERS[key]
            r = np.float32(call['r'])
            n = len(X)
            m = int(float(r) * n)
            if journal is not None:
                journal.write(f'BEGIN {req["id"]}.{ci}\n')
                journal.flush()
            poison(m, n, call.get('heap') or [])
            try:
                s = cut.mutual_info_estimator_numba(Y, X, r, bool(call['c']))
            except Exception as e:  # noqa: BLE001  (reported to the parent as an abnormal termination of the call)
                bits = None
                err = f'{type(e).__name__}: {e}'
                break
            bits.append(struct.unpack('<I', struct.pack('<f', float(s)))[0])
        if bits is None:
            out.write(json.dumps({'id': req['id'], 'error': err}) + '\n')
            out.flush()
            continue
        out.write(json.dumps({'id': req['id'], 'bits': bits}) + '\n')
        out.flush()


if __name__ == '__main__':
    main()
