"""Harness-owned collaborators for pipeline-level checks: pools, args, progress bar, global reset."""
from __future__ import annotations

import random
import threading
from types import SimpleNamespace

import numpy as np


class _Result:
    def __init__(self, values):
        self._values = values

    def ready(self):
        return True

    def get(self, timeout=None):
        return self._values


class InlinePool:
    """Minimal model of the pathos pool contract used by mixed_rank_graph: context manager, amap
    returning an async result with ready()/get(); results are in submission order."""

    def __init__(self, ncpus=1):
        self.calls = 0
        self.ncpus = ncpus          # pathos pools expose the worker count under this name (also nodes)
        self.nodes = ncpus

    def __enter__(self):
        return self

    def __exit__(self, *a):
        return False

    def amap(self, f, xs):
        self.calls += 1
        return _Result([f(x) for x in list(xs)])

    def map(self, f, xs):
        return [f(x) for x in list(xs)]

    def imap(self, f, xs):
        return iter([f(x) for x in list(xs)])

    def uimap(self, f, xs):
        return iter([f(x) for x in list(xs)])

    def close(self):
        pass

    def join(self):
        pass

    def clear(self):
        pass


class ScheduledPool(InlinePool):
    """Pool whose *execution* order is a generated permutation spread over logical workers (optionally
    real threads); results are returned in submission order as amap guarantees."""

    def __init__(self, order_seed=0, workers=1, threads=False):
        super().__init__(ncpus=max(1, workers))
        self.order_seed = order_seed
        self.workers = max(1, workers)
        self.threads = threads
        self.executed_orders = []

    def amap(self, f, xs):
        xs = list(xs)
        self.calls += 1
        rng = np.random.Generator(np.random.PCG64(self.order_seed + 7919 * self.calls))
        perm = rng.permutation(len(xs)).tolist()
        self.executed_orders.append(perm)
        out = [None] * len(xs)
        if not self.threads or self.workers == 1:
            # interleave logical workers round-robin over the permuted task list
            queues = [perm[w::self.workers] for w in range(self.workers)]
            while any(queues):
                for q in queues:
                    if q:
                        i = q.pop(0)
                        out[i] = f(xs[i])
        else:
            queues = [perm[w::self.workers] for w in range(self.workers)]
            errors = []

            def worker(q):
                try:
                    for i in q:
                        out[i] = f(xs[i])
                except BaseException as e:  # noqa: BLE001
                    errors.append(e)
            ts = [threading.Thread(target=worker, args=(q,)) for q in queues]
            for t in ts:
                t.start()
            for t in ts:
                t.join()
            if errors:
                raise errors[0]
        return _Result(out)


class PBar:
    def set_description(self, *a, **k):
        pass

    def update(self, *a, **k):
        pass

    def close(self):
        pass


def make_args(**over):
    """CLI defaults of outrank/__main__.py as a namespace (values as argparse would produce them)."""
    d = dict(
        task='ranking', minibatch_size=2**14, output_folder='ranking_outputs', data_source='csv-raw',
        data_path=None, subsampling=1, combination_number_upper_bound=2**15, missing_value_symbols=',{}',
        heuristic='MI-numba-randomized', include_noise_baseline_features='False',
        include_cardinality_in_feature_names='True', image_format='pdf', num_threads=1, label_column='label',
        max_unique_hist_constraint=30_000, transformers='none', rare_value_count_upper_bound=1,
        feature_set_focus=None, interaction_order=1, reference_model_JSON='', target_ranking_only='True',
        explode_multivalue_features='False', subfeature_mapping='False', num_synthetic_features=100, tldr='False',
        num_synthetic_rows=1000, generator_type='naive', output_synthetic_df_name='test_data_synthetic',
        disable_tqdm='True', mi_stratified_sampling_ratio=1.0,
    )
    d.update(over)
    return SimpleNamespace(**d)


def reset_globals(seed=123):
    """Reset every process-global the ranking pipeline keeps between batches / runs."""
    from outrank import core_ranking as cr
    cr.GLOBAL_CARDINALITY_STORAGE.clear()
    cr.GLOBAL_COUNTS_STORAGE.clear()
    cr.GLOBAL_RARE_VALUE_STORAGE.clear()
    cr.GLOBAL_PRIOR_COMB_COUNTS.clear()
    cr.IGNORED_VALUES.clear()
    random.seed(a=seed, version=2)
    np.random.seed(seed)
