"""Shared Hypothesis strategies. Cases are plain JSON-able dicts; `materialize_*` builds arrays."""
from __future__ import annotations

import numpy as np
from hypothesis import strategies as st

MAX_CODE = 2**20


# ---- code-vector pairs -----------------------------------------------------------------------------

FAMILIES_EXTRA = ['highcard']
FAMILIES = ['independent', 'function', 'noisy_copy', 'const_x', 'const_y', 'distinct_x', 'distinct_y',
            'dominant', 'few_large_many_single', 'row_permuted_copy', 'identical']


SORTS = [None, None, None, 'x', 'y', 'xg', 'yg']     # row layout: as generated, sorted by one of the two vectors, or grouped by it (one run per code, runs NOT in code order)


@st.composite
def small_pair(draw, max_n=64):
    """Element-wise generated pair (fully shrinkable)."""
    n = draw(st.integers(1, max_n))
    kx = draw(st.sampled_from([1, 2, 3, 4, n]))
    ky = draw(st.sampled_from([1, 2, 3, 4, n]))
    X = draw(st.lists(st.integers(0, max(kx - 1, 0)), min_size=n, max_size=n))
    mode = draw(st.sampled_from(['free', 'free', 'fn', 'copy']))
    if mode == 'free':
        Y = draw(st.lists(st.integers(0, max(ky - 1, 0)), min_size=n, max_size=n))
    elif mode == 'fn':
        table = draw(st.lists(st.integers(0, max(ky - 1, 0)), min_size=kx, max_size=kx))
        Y = [table[x] for x in X]
        flips = draw(st.lists(st.tuples(st.integers(0, n - 1), st.integers(0, max(ky - 1, 0))), max_size=3))
        for i, v in flips:
            Y[i] = v
    else:
        Y = list(X)
        flips = draw(st.lists(st.tuples(st.integers(0, n - 1), st.integers(0, max(kx - 1, 0))), max_size=2))
        for i, v in flips:
            Y[i] = v
    return {'Y': Y, 'X': X}


@st.composite
def family_pair(draw, sizes=((2, 8), (9, 64), (65, 2000)), max_product=5 * 10**7):
    """PRNG-built structured pair: the structure (family, sizes, cardinalities, seed) is drawn by
    Hypothesis and shrinks; the element level is expanded by numpy PCG64(k)."""
    fam = draw(st.sampled_from(FAMILIES))
    lo, hi = draw(st.sampled_from(list(sizes)))
    n = draw(st.integers(lo, hi))
    kx = draw(st.one_of(st.integers(1, 6), st.integers(1, max(1, min(n, 3000)))))
    ky = draw(st.one_of(st.integers(1, 6), st.integers(1, max(1, min(n, 3000)))))
    # bound the cost n * #strata
    while n * kx > max_product and kx > 1:
        kx = max(1, kx // 2)
    k = draw(st.integers(0, 2**32 - 1))
    p = draw(st.sampled_from([0.0, 0.05, 0.15, 0.5]))
    return {'gen': {'fam': fam, 'n': n, 'kx': kx, 'ky': ky, 'k': k, 'p': p}, 'sort': draw(st.sampled_from(SORTS))}


def build_family(g):
    rng = np.random.Generator(np.random.PCG64(int(g['k'])))
    n, kx, ky, fam, p = g['n'], g['kx'], g['ky'], g['fam'], g.get('p', 0.1)
    X = rng.integers(0, kx, size=n)
    if fam == 'independent':
        Y = rng.integers(0, ky, size=n)
    elif fam == 'function':
        table = rng.integers(0, ky, size=kx)
        Y = table[X]
    elif fam == 'noisy_copy':
        Y = X.copy()
        flip = rng.random(n) < p
        Y[flip] = rng.integers(0, max(kx, 2), size=int(flip.sum()))
    elif fam == 'const_x':
        X = np.zeros(n, dtype=np.int64)
        Y = rng.integers(0, ky, size=n)
    elif fam == 'const_y':
        Y = np.zeros(n, dtype=np.int64)
    elif fam == 'distinct_x':
        X = rng.permutation(n)
        Y = rng.integers(0, ky, size=n)
    elif fam == 'distinct_y':
        Y = rng.permutation(n)
    elif fam == 'dominant':
        X = np.where(rng.random(n) < 0.92, 0, np.arange(1, n + 1))
        Y = rng.integers(0, ky, size=n)
    elif fam == 'few_large_many_single':
        big = rng.integers(0, min(kx, 4), size=n)
        single = np.arange(10, n + 10)
        X = np.where(rng.random(n) < 0.7, big, single)
        Y = np.where(rng.random(n) < 0.5, big, rng.integers(0, ky, size=n))
    elif fam == 'row_permuted_copy':
        Y = X[rng.permutation(n)]
    elif fam == 'identical':
        Y = X.copy()
    elif fam == 'maxn':
        X = np.zeros(n, dtype=np.int64) if kx == 1 else (np.arange(n) >= n - 3).astype(np.int64)
        Y = np.zeros(n, dtype=np.int64)
        pos = rng.choice(n, size=ky, replace=False)
        Y[pos] = np.arange(1, ky + 1)           # ky codes that occur exactly once
    elif fam == 'highcard':
        Y = rng.integers(0, ky, size=n)
        dep = rng.random(n) < 0.3
        Y[dep] = (X[dep] * 7 + Y[dep] % 5) % ky      # some dependence on the target
    elif fam == 'nearcopy':
        # the feature is the target except on ky rows (a lightly edited copy): NOT a self pair
        Y = X.copy()
        rows = rng.choice(n, size=min(max(1, ky), n), replace=False)
        Y[rows] = (X[rows] + 1 + rng.integers(0, max(kx, 2) - 1 + 1, size=len(rows))) % max(kx, 2)
        same = Y[rows] == X[rows]
        Y[rows[same]] = (X[rows[same]] + 1) % max(kx, 2)
    elif fam == 'longtail':
        # two frequent target values plus ky values that occur exactly twice each (each below 1e-5 of the rows for n > 200 000); the
        # feature follows the target on the tail
        tail = np.repeat(np.arange(2, 2 + ky), 2)
        X = np.concatenate([rng.integers(0, 2, size=n - len(tail)), tail])
        perm = rng.permutation(len(X))
        X = X[perm]
        Y = np.where(X >= 2, X % 7, rng.integers(0, 7, size=len(X)))
    elif fam == 'idpair':
        # both vectors id-like: X has ~6/7 n distinct values (all but ky of them singletons, ky frequent ones), Y tens of thousands of
        # values and a noisy copy of X on the frequent values - (#values of X) x (#values of Y) exceeds 2^31
        n_ids = (6 * n) // 7
        X = np.concatenate([np.arange(n_ids), rng.integers(n_ids - ky, n_ids, size=n - n_ids)])
        X = X[rng.permutation(n)]
        frequent = X >= n_ids - ky
        Y = rng.integers(0, 200_000, size=n)
        Y[frequent] = 200_000 + X[frequent] % ky
        flip = frequent & (rng.random(n) < 0.15)
        Y[flip] = 200_000 + rng.integers(0, ky, size=int(flip.sum()))
    elif fam == 'manystrata':
        # ky = repetitions per id (2..4): n // ky ids, each seen ky times, in shuffled row order; the other vector is split evenly
        # inside every id (p == 0: MI exactly 0 although H(X|id) = ln 2 in every stratum) or random
        ids = np.repeat(np.arange(n // ky), ky)
        n = len(ids)
        inside = np.tile(np.arange(ky) % kx, n // ky)
        perm = rng.permutation(n)
        Y = ids[perm]
        X = inside[perm] if p == 0 else rng.integers(0, kx, size=n)[perm]
    else:
        raise ValueError(fam)
    return Y.astype(np.int64), X.astype(np.int64)


@st.composite
def wide_pair(draw, n_lo=65600, n_hi=72000):
    """More than 2^16 distinct codes on the feature side against a target with few strata: the regime where index /
    position buffers narrower than 32 bits wrap. Cost ~ #classes * n, so the target keeps 2-4 strata."""
    n = draw(st.integers(n_lo, n_hi))
    return {'wide': {'n': n, 'kx': draw(st.integers(2, 4)), 'k': draw(st.integers(0, 2**32 - 1)),
                     'dup': draw(st.sampled_from([0, 0, 100, 2000])), 'sparse': draw(st.booleans())}}


def build_wide(w):
    rng = np.random.Generator(np.random.PCG64(int(w['k'])))
    n = int(w['n'])
    Y = rng.permutation(n)
    if w['dup']:
        idx = rng.integers(0, n, size=int(w['dup']))
        Y[idx] = Y[(idx + 1) % n]          # a few repeated codes; still > 2^16 distinct
    if w['sparse']:
        lut = np.sort(rng.choice(MAX_CODE, size=n, replace=False))
        Y = lut[Y]
    X = rng.integers(0, int(w['kx']), size=n)
    return Y.astype(np.int64), X.astype(np.int64)


@st.composite
def maxn_pair(draw):
    """n = 10^6 exactly (the upper end of the stated domain) with a single huge target stratum and a feature made of one
    dominant code plus codes that occur once: cells whose conditional probability is exactly 1e-6."""
    return {'gen': {'fam': 'maxn', 'n': 1_000_000, 'kx': draw(st.sampled_from([1, 1, 2])), 'ky': draw(st.integers(200, 1500)),
                    'k': draw(st.integers(0, 2**32 - 1)), 'p': 0.0}}


@st.composite
def manystrata_pair(draw):
    """Tens of thousands of NON-singleton strata (ids seen 2-4 times, n 40 000 - 90 000): a running sum over strata has that many terms."""
    return {'gen': {'fam': 'manystrata', 'n': draw(st.integers(40_000, 90_000)), 'kx': draw(st.integers(2, 3)), 'ky': draw(st.integers(2, 4)),
                    'k': draw(st.integers(0, 2**32 - 1)), 'p': draw(st.sampled_from([0.0, 0.0, 0.5]))}, 'both': True}


@st.composite
def nearcopy_pair(draw):
    """A feature that equals the target on all but 1-6 rows, n 2 048 - 20 000 (longer than any row-sampled comparison stride)."""
    return {'gen': {'fam': 'nearcopy', 'n': draw(st.integers(2048, 20000)), 'kx': draw(st.sampled_from([2, 3, 50, 1000])), 'ky': draw(st.integers(1, 6)),
                    'k': draw(st.integers(0, 2**32 - 1)), 'p': 0.0}}


@st.composite
def longtail_pair(draw):
    """n 205 000 - 260 000 with thousands of target values that occur exactly twice (a long-tailed target on a few hundred thousand rows)."""
    return {'gen': {'fam': 'longtail', 'n': draw(st.integers(205_000, 260_000)), 'kx': 2, 'ky': draw(st.integers(3000, 7000)),
                    'k': draw(st.integers(0, 2**32 - 1)), 'p': 0.0}}


@st.composite
def idpair_pair(draw):
    """n 60 000 - 80 000, both vectors with tens of thousands of distinct values (two id columns of one batch)."""
    return {'gen': {'fam': 'idpair', 'n': draw(st.integers(60_000, 80_000)), 'kx': 1, 'ky': draw(st.integers(10, 30)),
                    'k': draw(st.integers(0, 2**32 - 1)), 'p': 0.0}}


@st.composite
def highcard_pair(draw):
    """Feature with more than 1024 distinct values, many of them repeated, against a target with 2-6 strata (n 3000-12000)."""
    n = draw(st.one_of(st.integers(3000, 12000), st.integers(3000, 12000), st.integers(16500, 24000)))   # 1100+ codes x n beyond 2^24 at times
    return {'gen': {'fam': 'highcard', 'n': n, 'kx': draw(st.integers(2, 6)), 'ky': draw(st.integers(1100, max(1101, n // 2))),
                    'k': draw(st.integers(0, 2**32 - 1)), 'p': 0.0}, 'sort': draw(st.sampled_from(SORTS)), 'both': True}


@st.composite
def lagged_pair(draw):
    """The two vectors are overlapping windows s[:-lag] and s[lag:] of ONE int32 buffer (e.g. a series against its lagged
    self) with a non-zero minimum code: legitimate arguments whose memory overlaps."""
    return {'lagged': {'n': draw(st.integers(2, 400)), 'lag': draw(st.integers(1, 12)), 'k': draw(st.integers(2, 6)),
                       'min': draw(st.sampled_from([1, 3, 7, 1000])), 'seed': draw(st.integers(0, 2**32 - 1)),
                       'period': draw(st.sampled_from([0, 0, 3, 5])),
                       'layout': draw(st.sampled_from(['windows', 'windows', 'columns', 'row-vs-column', 'prefix-vs-stride', 'reversed']))}}


def build_lagged(g):
    """-> (buffer int32, Y view, X view). Layouts: overlapping windows of a series (default), two columns of a row-major
    table, row 0 vs column 0 of a square table, a prefix vs an every-other-element view of one buffer, reversed views."""
    rng = np.random.Generator(np.random.PCG64(int(g['seed'])))
    n, lag = int(g['n']), int(g['lag'])
    layout = g.get('layout', 'windows')
    k, mn = int(g['k']), int(g['min'])
    if layout == 'columns':
        table = (rng.integers(0, k, size=(n, 3)) + mn).astype(np.int32)
        table[:, 1] = np.where(rng.random(n) < 0.5, table[:, 0], table[:, 1])
        return table, table[:, 0], table[:, 1]
    if layout == 'row-vs-column':
        m = max(2, min(n, 60))
        table = (rng.integers(0, k, size=(m, m)) + mn).astype(np.int32)
        return table, table[0, :], table[:, 0]
    if layout == 'prefix-vs-stride':
        buf = (rng.integers(0, k, size=2 * n) + mn).astype(np.int32)
        return buf, buf[::2], buf[:n]
    if layout == 'reversed':
        buf = (rng.integers(0, k, size=n) + mn).astype(np.int32)
        other = np.where(rng.random(n) < 0.5, buf, (rng.integers(0, k, size=n) + mn)).astype(np.int32)
        return buf, buf[::-1], other[::-1]
    s = rng.integers(0, int(g['k']), size=n + lag)
    if g.get('period'):
        s = (s + (np.arange(n + lag) // int(g['period']))) % int(g['k'])      # serial dependence
    s = (s + int(g['min'])).astype(np.int32)
    return s, s[:-lag], s[lag:]


def materialize_pair(case):
    """-> (Y, X) as int64 arrays of non-negative codes (< 2**20)."""
    if 'lagged' in case:
        _, Yv, Xv = build_lagged(case['lagged'])
        return Yv.astype(np.int64), Xv.astype(np.int64)
    if 'wide' in case:
        Y, X = build_wide(case['wide'])
    elif 'gen' in case:
        Y, X = build_family(case['gen'])
    else:
        Y, X = np.asarray(case['Y'], dtype=np.int64), np.asarray(case['X'], dtype=np.int64)
    if case.get('sort') in ('x', 'y', 'xg', 'yg') and len(X):
        # the same rows in grouped order (a table sorted by one of the two columns, or grouped by it with the groups in first-appearance
        # / hash order): no score depends on the row order
        key = X if case['sort'][0] == 'x' else Y
        if case['sort'].endswith('g'):
            vals, inv = np.unique(key, return_inverse=True)
            shuffled = np.random.Generator(np.random.PCG64(len(key) * 31 + len(vals))).permutation(len(vals))
            key = shuffled[inv]
        order = np.argsort(key, kind='stable')
        Y, X = Y[order], X[order]
    if case.get('swap'):
        Y, X = X, Y
    return Y, X


# ---- injective relabelings -----------------------------------------------------------------------

def relabel_spec():
    return st.one_of(
        st.just({'t': 'id'}),
        st.builds(lambda s: {'t': 'perm', 'k': s}, st.integers(0, 2**32 - 1)),
        st.builds(lambda d: {'t': 'offset', 'd': d}, st.one_of(st.integers(1, 5000), st.sampled_from([100000, 400000, 400000, 1000000]))),
        st.builds(lambda s, b: {'t': 'lattice', 'step': s, 'base': b, 'top': True},
                  st.sampled_from([256, 4096, 4096, 65536]), st.integers(0, 3)),
        st.just({'t': 'reverse'}),
        st.builds(lambda s: {'t': 'sparse', 'k': s}, st.integers(0, 2**32 - 1)),
    )


def apply_relabel(v, spec):
    """Injective recoding of the used codes of v into [0, 2**20)."""
    v = np.asarray(v, dtype=np.int64)
    used = np.unique(v)
    t = spec['t']
    if t == 'id':
        return v.copy()
    if t == 'offset':
        d = int(spec['d'])
        if used.max() + d >= MAX_CODE:
            d = 1 if used.max() + 1 < MAX_CODE else 0
        return v + d
    if t == 'reverse':
        return used.max() - v
    if t == 'stride':
        m = int(spec['m'])
        return v * m if int(used.max()) * m < MAX_CODE else v
    if t == 'lattice':
        # codes base + i*step (powers of two apart), the largest used code mapped to 2^20 - 1: the arithmetic corner where
        # packed joint keys such as x * (max(y) + 1) + y wrap
        step, base = int(spec['step']), int(spec['base'])
        if base + (len(used) - 1) * step >= MAX_CODE - 1:
            step = max(1, (MAX_CODE - 2 - base) // max(1, len(used)))
        new = [base + i * step for i in range(len(used))]
        if spec.get('top') and len(used) > 1:
            new[-1] = MAX_CODE - 1
        lut = dict(zip(used.tolist(), new))
        return np.fromiter((lut[x] for x in v.tolist()), dtype=np.int64, count=len(v))
    rng = np.random.Generator(np.random.PCG64(int(spec['k'])))
    if t == 'perm':
        new = rng.permutation(used)
    elif t == 'sparse':
        new = rng.choice(MAX_CODE, size=len(used), replace=False) if len(used) < 4096 else \
            rng.permutation(MAX_CODE)[:len(used)]
    else:
        raise ValueError(t)
    lut = dict(zip(used.tolist(), np.asarray(new).tolist()))
    return np.fromiter((lut[x] for x in v.tolist()), dtype=np.int64, count=len(v))


def relabel_is_identity(v, spec):
    return bool(np.array_equal(np.asarray(v), apply_relabel(v, spec)))


# ---- set partitions (restricted growth strings) ------------------------------------------------

def rgs(n):
    """All restricted growth strings of length n (= set partitions of [n]), as tuples."""
    out = []

    def rec(prefix, mx):
        if len(prefix) == n:
            out.append(tuple(prefix))
            return
        for v in range(mx + 2):
            prefix.append(v)
            rec(prefix, max(mx, v))
            prefix.pop()
    if n == 0:
        return [()]
    rec([0], 0)
    return out
