"""Independent reference models. Nothing here imports the code under test."""
from __future__ import annotations

import math
from collections import Counter, defaultdict

import numpy as np


def tolist(v):
    return v.tolist() if isinstance(v, np.ndarray) else list(v)


def entropy(v) -> float:
    v = tolist(v)
    n = len(v)
    return -math.fsum((c / n) * math.log(c / n) for c in Counter(v).values())


def mi_ref(Y, X) -> float:
    """Textbook plug-in mutual information: sum p_xy ln(p_xy / (p_x p_y)), in nats."""
    Y, X = tolist(Y), tolist(X)
    n = len(X)
    cx, cy, cxy = Counter(X), Counter(Y), Counter(zip(X, Y))
    return math.fsum((c / n) * math.log(c * n / (cx[x] * cy[y])) for (x, y), c in cxy.items())


def cond_entropy(Y, X) -> float:
    """H(Y|X) = -sum p_xy ln(p_xy / p_x)."""
    Y, X = tolist(Y), tolist(X)
    n = len(X)
    cx, cxy = Counter(X), Counter(zip(X, Y))
    return -math.fsum((c / n) * math.log(c / cx[x]) for (x, y), c in cxy.items())


def displaced(Y, X):
    """Y*[i] = Y[(i + c_{X[i]}) mod n], c_v = number of rows with X = v (statement of C03)."""
    Y, X = tolist(Y), tolist(X)
    n = len(X)
    cx = Counter(X)
    return [Y[(i + cx[X[i]]) % n] for i in range(n)]


def corrected_ref(Y, X) -> float:
    """Cardinality-corrected score: H(Y*|X) - H(Y|X); element-wise identical vectors -> H(X)."""
    Y, X = tolist(Y), tolist(X)
    if Y == X:
        return entropy(X)
    return cond_entropy(displaced(Y, X), X) - cond_entropy(Y, X)


def score_ref(Y, X, corrected: bool) -> float:
    return corrected_ref(Y, X) if corrected else mi_ref(Y, X)


def tol(Y=None, X=None, hx=None, hy=None) -> float:
    """Sound absolute tolerance for a float32 score (see DESIGN.md section 2)."""
    if hx is None:
        hx = entropy(X)
    if hy is None:
        hy = entropy(Y)
    return 2e-5 + 2e-6 * (hx + hy)


# ---- subsampling model (C04) ---------------------------------------------------------------------

def sample_quota(n: int, r32, n_values: int) -> int:
    """floor(floor(float32(r) * n) / #values), evaluated the way the statement reads."""
    final = int(float(np.float32(r32)) * n)
    return int(final / n_values), final


def sample_rows(X, r32):
    """Row indices used by the subsampled estimator: for each distinct target value in ascending
    order the first q rows carrying it; q == 0 -> all rows (original order)."""
    X = tolist(X)
    n = len(X)
    values = sorted(set(X))
    q, _ = sample_quota(n, r32, len(values))
    if q == 0:
        return list(range(n))
    rows = []
    pos = defaultdict(list)
    for i, x in enumerate(X):
        if len(pos[x]) < q:
            pos[x].append(i)
    for v in values:
        rows.extend(pos[v])
    return rows


def sampled_score_ref(Y, X, r32, corrected: bool) -> float:
    """Anchored mechanism of C04: entropies of the sampled rows with the ORIGINAL stratum sizes as
    weights / denominators / displacement, scaled by r. For r >= 1 equals score_ref."""
    Y, X = tolist(Y), tolist(X)
    r = float(np.float32(r32))
    n = len(X)
    orig_counts = Counter(X)
    if corrected and Y == X:
        corrected = False
    if r < 1.0:
        rows = sample_rows(X, r32)
        Ys = [Y[i] for i in rows]
        Xs = [X[i] for i in rows]
    else:
        Ys, Xs = Y, X
    m = len(Xs)
    full_entropy = 0.0
    if not corrected:
        cy = Counter(Ys)
        # the implementation divides sample class counts by the ORIGINAL number of rows
        full_entropy = -math.fsum((c / n) * math.log(c / n) for c in cy.values())
    cond = 0.0
    back = 0.0
    strata = defaultdict(list)
    for i, x in enumerate(Xs):
        strata[x].append(i)
    for x, cnt in orig_counts.items():
        if cnt == 1:
            continue
        idx = strata.get(x, [])
        w = cnt / n
        cls = Counter(Ys[i] for i in idx)
        cond -= math.fsum(w * (c / cnt) * math.log(c / cnt) for c in cls.values())
        if corrected:
            cls2 = Counter(Ys[(i + cnt) % m] for i in idx)
            back -= math.fsum(w * (c / cnt) * math.log(c / cnt) for c in cls2.values())
    if not corrected:
        return r * (full_entropy - cond)
    return r * (-cond + back)
