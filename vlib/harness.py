"""Common machinery for all property checks: seeding, Hypothesis driving, failure capture,
replay files, known findings, evidence.

Conventions
-----------
* A *case* is a plain JSON-able value (dict / list / str / int / float / bool / None) drawn by a
  Hypothesis strategy (or produced by an enumerator).  Everything large is *built* from the case by
  deterministic code in the check module, so a replay file is just the case.
* An *oracle* is ``oracle(case, rec) -> None`` that raises ``Violation(detail)`` when the property
  is broken on that case.  ``rec`` collects the non-triviality verdict and class labels.
* Exceptions escaping from the code under test (innermost frame inside VERIF_REPO) are violations of
  kind ``<kind>/exception``; any other exception is a harness error (exit 2, never VIOLATION).
"""
from __future__ import annotations

import hashlib
import json
import math
import os
import sys
import time
import traceback
from collections import Counter

VERIF_DIR = os.path.dirname(os.path.dirname(os.path.abspath(__file__)))
REPO = os.path.abspath(os.environ.get('VERIF_REPO', '/repo'))
def _parse_seed(text):
    try:
        return int(text)
    except (TypeError, ValueError):
        return int.from_bytes(hashlib.blake2b(str(text).encode(), digest_size=4).digest(), 'big')


SEED = _parse_seed(os.environ.get('VERIF_SEED', '1') or '1')
OUT_DIR = os.path.abspath(os.environ.get('VERIF_OUT', VERIF_DIR))


def setup_environment():
    """Must run before outrank / numba are imported."""
    os.environ.setdefault('NUMBA_CACHE_DIR', os.path.join(VERIF_DIR, '.cache', 'numba'))
    os.makedirs(os.environ['NUMBA_CACHE_DIR'], exist_ok=True)
    os.environ.setdefault('OUTRANK_VERIF', '1')
    if REPO not in sys.path[:1]:
        sys.path.insert(0, REPO)
    if VERIF_DIR not in sys.path:
        sys.path.insert(1, VERIF_DIR)
    deps = os.path.join(VERIF_DIR, '.deps')
    if os.path.isdir(deps) and deps not in sys.path:
        sys.path.append(deps)


def assert_repo_import():
    import outrank
    got = os.path.dirname(os.path.dirname(os.path.abspath(outrank.__file__)))
    if os.path.realpath(got) != os.path.realpath(REPO):
        raise HarnessError(f'outrank imported from {got}, expected {REPO}')


class Violation(Exception):
    """Raised by an oracle when the property does not hold on the case."""

    def __init__(self, detail, kind=None):
        super().__init__(detail)
        self.detail = str(detail)
        self.kind = kind


class HarnessError(Exception):
    pass


class Inconclusive(Exception):
    """Raised by an oracle when the case cannot be decided (counted, never a violation)."""


def jdump(obj):
    return json.dumps(obj, sort_keys=True, separators=(',', ':'), default=_json_default, ensure_ascii=True)


def _json_default(o):
    try:
        import numpy as np
        if isinstance(o, (np.integer,)):
            return int(o)
        if isinstance(o, (np.floating,)):
            return float(o)
        if isinstance(o, np.ndarray):
            return o.tolist()
        if isinstance(o, np.bool_):
            return bool(o)
    except Exception:
        pass
    if isinstance(o, (set, frozenset)):
        return sorted(o, key=repr)
    if isinstance(o, tuple):
        return list(o)
    if isinstance(o, bytes):
        return o.decode('latin1')
    return repr(o)


def digest(obj) -> int:
    if not isinstance(obj, (str, bytes)):
        obj = jdump(obj)
    if isinstance(obj, str):
        obj = obj.encode('utf-8', 'surrogatepass')
    return int.from_bytes(hashlib.blake2b(obj, digest_size=8).digest(), 'big')


def truncate(obj, max_list=24, max_str=160, depth=0):
    """Shorten a case for the evidence samples."""
    if isinstance(obj, dict):
        return {str(k): truncate(v, max_list, max_str, depth + 1) for k, v in list(obj.items())[:40]}
    if isinstance(obj, (list, tuple)):
        out = [truncate(v, max_list, max_str, depth + 1) for v in obj[:max_list]]
        if len(obj) > max_list:
            out.append(f'... ({len(obj)} items)')
        return out
    if isinstance(obj, str) and len(obj) > max_str:
        return obj[:max_str] + f'... ({len(obj)} chars)'
    if isinstance(obj, float) and (math.isnan(obj) or math.isinf(obj)):
        return repr(obj)
    return obj


class Rec:
    """Per-case recorder handed to the oracle."""

    __slots__ = ('nontrivial', 'key', 'classes')

    def __init__(self):
        self.nontrivial = False
        self.key = None
        self.classes = []

    def nt(self, flag=True, key=None):
        if flag:
            self.nontrivial = True
        if key is not None:
            self.key = key

    def cls(self, *labels):
        self.classes.extend(labels)


class Stats:
    def __init__(self):
        self.evaluations = 0
        self.nontrivial = set()
        self.nontrivial_count_only = 0  # enumerations that are distinct by construction
        self.classes = Counter()
        self.samples = []
        self.excluded = Counter()
        self.inconclusive = 0
        self.per_kind = {}

    def merge(self, other):
        self.evaluations += other.evaluations
        self.nontrivial |= other.nontrivial
        self.nontrivial_count_only += other.nontrivial_count_only
        self.classes.update(other.classes)
        self.excluded.update(other.excluded)
        self.inconclusive += other.inconclusive
        for s in other.samples:
            if len(self.samples) < 12:
                self.samples.append(s)
        for k, v in other.per_kind.items():
            d = self.per_kind.setdefault(k, {'evaluations': 0, 'nontrivial': 0})
            d['evaluations'] += v['evaluations']
            d['nontrivial'] += v['nontrivial']


def _frames_in_repo(tb):
    frames = traceback.extract_tb(tb)
    repo_real = os.path.realpath(REPO)
    inner = [f for f in frames if os.path.realpath(f.filename).startswith(repo_real + os.sep)]
    return inner


def classify_exception(exc):
    """'cut' when the exception passed through code under test, else 'harness'.

    The innermost *non-library* frame decides: if the deepest frame that belongs either to the
    repository or to /verif is a repository frame, the code under test raised (or called a library
    that raised)."""
    frames = traceback.extract_tb(exc.__traceback__)
    repo_real = os.path.realpath(REPO) + os.sep
    verif_real = os.path.realpath(VERIF_DIR) + os.sep
    for f in reversed(frames):
        if not os.path.isabs(f.filename):
            continue   # e.g. Cython frames such as "numpy/random/mtrand.pyx" (relative, would resolve against cwd)
        fn = os.path.realpath(f.filename)
        if fn.startswith(repo_real):
            return 'cut'
        if fn.startswith(verif_real):
            return 'harness'
    return 'harness'


class Ctx:
    def __init__(self, prop_id, tier, seed=SEED):
        self.prop_id = prop_id
        self.tier = tier
        self.seed = seed
        self.t0 = time.time()
        self.stats = Stats()
        self.violations = []  # (kind, case, detail, replay_path)
        self.known_lines = load_known_findings(prop_id)
        self.known_printed = set()
        self.rule = ''
        self.assumptions = []
        self.extra = {}
        self.exhaustive = False
        self.budget_notes = []

    # ---- known findings -------------------------------------------------------------------
    def known(self, key):
        for k, text in self.known_lines:
            if k == key:
                if key not in self.known_printed:
                    self.known_printed.add(key)
                    print(f'KNOWN-FINDING: property={self.prop_id} key={key} {text}', flush=True)
                return True
        return False

    # ---- bookkeeping ----------------------------------------------------------------------
    def account(self, kind, case, rec, stats=None, sample_cap=12, digest_key=True):
        st = stats if stats is not None else self.stats
        st.evaluations += 1
        d = st.per_kind.setdefault(kind, {'evaluations': 0, 'nontrivial': 0})
        d['evaluations'] += 1
        for c in rec.classes:
            st.classes[c] += 1
        if rec.nontrivial:
            d['nontrivial'] += 1
            if digest_key:
                st.nontrivial.add(digest(rec.key if rec.key is not None else [kind, case]))
            else:
                st.nontrivial_count_only += 1
            if len(st.samples) < sample_cap and (st.evaluations % 7 == 1 or len(st.samples) < 2):
                st.samples.append({'kind': kind, 'case': truncate(case)})

    def run_oracle(self, kind, oracle, case, stats=None, digest_key=True):
        """Run the oracle once. Returns None if fine, else (kind, detail)."""
        rec = Rec()
        try:
            oracle(case, rec)
        except Violation as v:
            self.account(kind, case, rec, stats, digest_key=digest_key)
            return (v.kind or kind, v.detail)
        except Inconclusive:
            (stats or self.stats).inconclusive += 1
            return None
        except HarnessError:
            raise
        except BaseException as e:  # noqa: BLE001
            if isinstance(e, (KeyboardInterrupt, SystemExit, MemoryError)):
                raise
            if classify_exception(e) == 'cut':
                self.account(kind, case, rec, stats, digest_key=digest_key)
                tb = ''.join(traceback.format_exception(type(e), e, e.__traceback__)[-6:])
                return (kind + '/exception', f'code under test raised {type(e).__name__}: {e}\n{tb}')
            raise HarnessError(f'oracle {kind} raised {type(e).__name__}: {e}\n' + traceback.format_exc()) from e
        self.account(kind, case, rec, stats, digest_key=digest_key)
        return None

    # ---- Hypothesis driver ----------------------------------------------------------------
    def hypothesis_check(self, kind, strategy, oracle, max_examples, shard=0, stats=None,
                         shrink_cap_s=None, time_budget_s=None):
        """Run one Hypothesis search for one oracle clause. Returns failure tuple or None."""
        import hypothesis
        from hypothesis import HealthCheck, Phase, given, settings

        if shrink_cap_s is None:
            shrink_cap_s = 45 if self.tier == 'quick' else 240
        state = {'first_fail_t': None, 'best': None, 'failing': {}, 'stop_t': None, 'budget_hit': False, 'calls': 0}
        t_start = time.time()
        # Hypothesis always tries the all-minimal example first; with several shards of one clause only shard 0 evaluates it
        skip_minimal = shard > 0

        def test(case):
            state['calls'] += 1
            if skip_minimal and state['calls'] == 1:
                return
            if time_budget_s is not None and state['first_fail_t'] is None and time.time() - t_start > time_budget_s:
                state['budget_hit'] = True
                return
            dg = digest(case)
            if state['first_fail_t'] is not None and time.time() - state['first_fail_t'] > shrink_cap_s:
                # shrink budget used: only previously failing cases keep failing
                if dg in state['failing']:
                    raise AssertionError(state['failing'][dg][1])
                return
            res = self.run_oracle(kind, oracle, case, stats)
            if res is not None:
                if state['first_fail_t'] is None:
                    state['first_fail_t'] = time.time()
                state['failing'][dg] = res
                size = len(jdump(case))
                if state['best'] is None or size <= state['best'][0]:
                    state['best'] = (size, case, res)
                state['last'] = (case, res)
                raise AssertionError(res[1])

        st = settings(
            max_examples=max_examples + (1 if skip_minimal else 0), database=None, deadline=None, derandomize=False,
            report_multiple_bugs=False, suppress_health_check=list(HealthCheck),
            phases=[Phase.generate, Phase.shrink], print_blob=False,
            verbosity=hypothesis.Verbosity.quiet,
        )
        wrapped = hypothesis.seed((self.seed * 1000003 + shard * 7919 + digest(kind)) % (2**63))(st(given(strategy)(test)))
        try:
            wrapped()
        except HarnessError:
            raise
        except BaseException as e:  # noqa: BLE001
            if isinstance(e, (KeyboardInterrupt, SystemExit, MemoryError)):
                raise
            if state['best'] is None:
                raise HarnessError(f'hypothesis run for {kind} failed without an oracle failure: '
                                   f'{type(e).__name__}: {e}\n' + traceback.format_exc()) from e
        if state['budget_hit']:
            self.budget_notes.append(f'{kind}: time budget {time_budget_s}s reached; remaining examples skipped')
        if state['best'] is None:
            return None
        # Hypothesis replays the minimal example last; prefer it when it is not larger
        case, res = state['last']
        if len(jdump(case)) > state['best'][0]:
            _, case, res = state['best']
        return (res[0], case, res[1])

    # ---- violation output -----------------------------------------------------------------
    def report(self, kind, case, detail):
        os.makedirs(os.path.join(OUT_DIR, 'replays'), exist_ok=True)
        payload = {'property': self.prop_id, 'kind': kind, 'case': case, 'detail': detail[:4000],
                   'seed': self.seed, 'tier': self.tier}
        h = '%016x' % digest([kind, case])
        safe_kind = kind.replace('/', '_')
        path = os.path.join(OUT_DIR, 'replays', f'{self.prop_id}-{safe_kind}-{h[:10]}.json')
        with open(path, 'w') as fh:
            fh.write(json.dumps(payload, default=_json_default, indent=1))
        self.violations.append((kind, case, detail, path))
        sys.stdout.flush()
        print(f'--- violation kind={kind}\n    case={jdump(truncate(case))[:1500]}\n    detail={detail[:1500]}', flush=True)
        print(f'VIOLATION property={self.prop_id} replay={path}', flush=True)

    # ---- evidence -------------------------------------------------------------------------
    def write_evidence(self):
        st = self.stats
        distinct = len(st.nontrivial) + st.nontrivial_count_only
        cov = {
            'evaluations': int(st.evaluations),
            'distinct_nontrivial': int(distinct),
            'rule': self.rule,
            'samples': st.samples[:12] if st.samples else [],
            'classes': dict(sorted(st.classes.items())),
            'per_clause': st.per_kind,
            'excluded_by_construction': dict(st.excluded),
            'inconclusive': st.inconclusive,
        }
        if self.exhaustive:
            cov['exhaustive'] = True
        if self.budget_notes:
            cov['budget_notes'] = self.budget_notes
        cov.update(self.extra)
        ev = {
            'property_id': self.prop_id,
            'tier': self.tier,
            'seed': int(self.seed),
            'level': 'exploration',
            'coverage': cov,
            'assumptions': self.assumptions,
            'wall_s': round(time.time() - self.t0, 3),
            'violations': len(self.violations),
        }
        os.makedirs(os.path.join(OUT_DIR, 'evidence'), exist_ok=True)
        path = os.path.join(OUT_DIR, 'evidence', f'{self.prop_id}.json')
        tmp = path + '.tmp'
        with open(tmp, 'w') as fh:
            fh.write(json.dumps(ev, default=_json_default, indent=1))
        os.replace(tmp, path)
        return ev


def load_known_findings(prop_id):
    """Lines: ``finding: property=C13 key=some-key free text``. 'fixed:' lines suppress nothing."""
    out = []
    path = os.path.join(VERIF_DIR, 'KNOWN_FINDINGS.txt')
    if not os.path.exists(path):
        return out
    with open(path) as fh:
        for line in fh:
            line = line.strip()
            if not line.startswith('finding:'):
                continue
            parts = line[len('finding:'):].split()
            kv = dict(p.split('=', 1) for p in parts[:2] if '=' in p)
            if kv.get('property') == prop_id and 'key' in kv:
                out.append((kv['key'], ' '.join(parts[2:])))
    return out


# ---- sharding ---------------------------------------------------------------------------------

_WORK = None


def _call_work(i):
    return _WORK(i)


def run_sharded(fn, nshards, nproc=None):
    """Run fn(shard_index) -> picklable in forked children; returns list of results.
    fn may be a closure: it is inherited through fork, never pickled."""
    import multiprocessing as mp
    global _WORK
    if nshards <= 1 or os.environ.get('VERIF_SERIAL') == '1':
        return [fn(i) for i in range(nshards)]
    nproc = nproc or min(nshards, os.cpu_count() or 1)
    ctx = mp.get_context('fork')
    _WORK = fn
    try:
        with ctx.Pool(nproc) as pool:
            return pool.map(_call_work, range(nshards), chunksize=1)
    finally:
        _WORK = None


# ---- clause driver ----------------------------------------------------------------------------

class Clause:
    """One oracle clause searched by Hypothesis.

    strategy: zero-argument callable returning the Hypothesis strategy (built in the worker)
    oracle:   oracle(case, rec)
    quick / thorough: number of examples per tier (total over all shards)
    """

    def __init__(self, kind, strategy, oracle, quick, thorough, quick_shards=1, thorough_shards=16,
                 time_budget_s=None):
        self.kind = kind
        self.strategy = strategy
        self.oracle = oracle
        self.quick = quick
        self.thorough = thorough
        self.quick_shards = quick_shards
        self.thorough_shards = thorough_shards
        self.time_budget_s = time_budget_s


def drive(ctx, clauses, nproc=None):
    """Run every clause (sharded) and report one minimal violation per failing clause kind."""
    tasks = []
    for ci, cl in enumerate(clauses):
        total = cl.quick if ctx.tier == 'quick' else cl.thorough
        if total <= 0:
            continue          # a clause of the other tier only
        shards = cl.quick_shards if ctx.tier == 'quick' else cl.thorough_shards
        shards = max(1, min(shards, total))
        per = -(-total // shards)
        for s in range(shards):
            tasks.append((ci, s, per))

    def work(ti):
        ci, shard, n = tasks[ti]
        cl = clauses[ci]
        st = Stats()
        sub = Ctx.__new__(Ctx)
        sub.__dict__.update(ctx.__dict__)
        sub.stats = st
        sub.budget_notes = []
        try:
            fail = sub.hypothesis_check(cl.kind, cl.strategy(), cl.oracle, n, shard=shard, stats=st,
                                        time_budget_s=cl.time_budget_s)
            return ('ok', ci, st, fail, sub.budget_notes)
        except HarnessError as e:
            return ('harness', ci, st, str(e), [])

    nproc = nproc or min(len(tasks), os.cpu_count() or 1)
    if len(tasks) == 1 or nproc == 1 or os.environ.get('VERIF_SERIAL') == '1':
        results = [work(i) for i in range(len(tasks))]
    else:
        results = run_sharded(work, len(tasks), nproc)
    fails = {}
    for status, ci, st, fail, notes in results:
        ctx.stats.merge(st)
        ctx.budget_notes.extend(notes)
        if status == 'harness':
            raise HarnessError(fail)
        if fail is not None:
            kind, case, detail = fail
            size = len(jdump(case))
            if kind not in fails or size < fails[kind][0]:
                fails[kind] = (size, case, detail)
    for kind, (_, case, detail) in sorted(fails.items()):
        ctx.report(kind, case, detail)
    return fails
