"""Fresh-process driver for C09: runs the real `outrank` CLI entry point with real pathos pools while the
harness perturbs the worker schedule.

usage: c09_driver.py <workdir> <schedule_seed> <max_delay_ms> -- <outrank CLI arguments...>

Every scoring call (get_importances_estimate_pairwise, executed inside the pool workers, which are forked
after the wrapper is installed) first sleeps for a delay derived from sha256(schedule_seed, combination)
and afterwards appends "<pid>\t<featureA>\t<featureB>" to <workdir>/completion.log, so the parent can count
distinct worker pids and distinct completion orders. Nothing in /repo is edited."""
from __future__ import annotations

import hashlib
import os
import sys
import time

REPO = os.environ.get('VERIF_REPO', '/repo')
sys.path.insert(0, REPO)


def main():
    sep = sys.argv.index('--')
    workdir, sched_seed, max_delay = sys.argv[1], int(sys.argv[2]), int(sys.argv[3])
    cli = sys.argv[sep + 1:]
    os.chdir(workdir)
    import logging
    logging.disable(logging.CRITICAL)
    from outrank import core_ranking as cr
    original = cr.get_importances_estimate_pairwise
    log_path = os.path.join(workdir, 'completion.log')

    def wrapped(combination, reference_model_features, args, tmp_df):
        if max_delay > 0:
            h = hashlib.sha256(f'{sched_seed}|{combination[0]}|{combination[1]}'.encode('utf-8', 'surrogatepass')).digest()
            time.sleep((int.from_bytes(h[:4], 'big') % (max_delay + 1)) / 1000.0)
        out = original(combination, reference_model_features, args, tmp_df)
        fd = os.open(log_path, os.O_WRONLY | os.O_APPEND | os.O_CREAT, 0o644)
        try:
            os.write(fd, f'{os.getpid()}\t{combination[0]}\t{combination[1]}\n'.encode('utf-8', 'surrogatepass'))
        finally:
            os.close(fd)
        return out
    cr.get_importances_estimate_pairwise = wrapped
    from outrank import __main__ as entry
    sys.argv = ['outrank'] + cli
    entry.main()


if __name__ == '__main__':
    main()
